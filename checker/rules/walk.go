package rules

import (
	"fmt"
	"go/ast"
	"go/token"
	"go/types"
	"strings"

	"dstverif/load"
	"dstverif/schema"
)

// frozen: node-typed fields that no traversal visits (same upstream).
var walkNotVisited = map[string]string{
	"File.Imports":    "duplicates of specs reachable through Decls; unvisited upstream too",
	"File.Unresolved": "resolution data; unvisited upstream too",
}

func childSeq(cs *schema.Case, skip func(field string) bool) []string {
	var out []string
	for _, ev := range cs.Events {
		switch ev.Kind {
		case schema.KChild, schema.KList, schema.KMap:
			if skip != nil && skip(ev.Field) {
				continue
			}
			out = append(out, ev.Kind+":"+ev.Field)
		}
	}
	return out
}

// structChildSeq: node-typed fields of the dst struct in declaration order.
func (e *Env) structChildSeq(tn string) []string {
	var out []string
	for _, f := range e.dstTypes[tn].Fields {
		if _, frozen := walkNotVisited[tn+"."+f.Name]; frozen {
			continue
		}
		switch f.Kind {
		case FNode:
			out = append(out, schema.KChild+":"+f.Name)
		case FNodeSlice:
			out = append(out, schema.KList+":"+f.Name)
		case FNodeMap:
			out = append(out, schema.KMap+":"+f.Name)
		}
	}
	return out
}

// RWalk: Walk visits every child exactly once in upstream (source) order.
func (e *Env) RWalk() {
	w := e.Sib.ByName["walk"]
	up := e.Sib.ByName["astwalk"]
	nChildren := 0
	for _, tn := range e.dstNodeNames() {
		cs := w.Cases[tn]
		if cs == nil {
			continue
		}
		pos := e.casePos(cs)
		for _, ev := range cs.Events {
			switch ev.Kind {
			case schema.KOpaque:
				e.Run.Violation("R-WALK", fmt.Sprintf("walk %s: only Walk calls in a case", tn), e.Prog.Pos(ev.Pos), "statement with traversal effects in an unrecognised shape: "+ev.Expr)
			case schema.KRet:
				e.Run.Violation("R-WALK", fmt.Sprintf("walk %s: no return inside a case", tn), e.Prog.Pos(ev.Pos), "a return inside a case skips the closing v.Visit(nil)")
			case schema.KChild, schema.KList, schema.KMap:
				nChildren++
				if ev.Else {
					e.Run.Violation("R-WALK", fmt.Sprintf("walk %s.%s visited on the non-nil branch", tn, ev.Field), e.Prog.Pos(ev.Pos), "child walked in an else branch")
				}
				// guards may only be the child's own nil test
				if ev.Guard != "" && ev.Guard != "n."+ev.Field+" != nil" {
					e.Run.Violation("R-WALK", fmt.Sprintf("walk %s.%s visited unconditionally or under its own nil test", tn, ev.Field), e.Prog.Pos(ev.Pos), "child is skipped under condition "+ev.Guard)
				}
			}
		}
		got := childSeq(cs, nil)
		// (a) equals the struct's node-typed fields in declaration order
		want := e.structChildSeq(tn)
		e.Run.Check("R-WALK", fmt.Sprintf("walk %s visits the struct's node fields once, in declaration order", tn), pos,
			strings.Join(got, " ") == strings.Join(want, " "),
			fmt.Sprintf("Walk visits %v; dst.%s declares %v — a missed child is invisible to Inspect (and import management), a repeated one is visited twice", got, tn, want))
		// (b) equals upstream go/ast.Walk with comment children erased
		if uc := up.Cases[tn]; uc != nil {
			ant := e.astTypes[tn]
			useq := childSeq(uc, func(field string) bool {
				f := ant.ByName[field]
				return f != nil && f.Kind == FComment
			})
			e.Run.Check("R-WALK", fmt.Sprintf("walk %s child sequence equals go/ast.Walk's", tn), pos, strings.Join(got, " ") == strings.Join(useq, " "),
				fmt.Sprintf("dst.Walk: %v; go/ast.Walk (comments erased): %v", got, useq))
		} else {
			e.Run.Violation("R-WALK", fmt.Sprintf("walk %s has an upstream case", tn), pos, "no case in go/ast.Walk")
		}
	}
	e.Run.Analysed("walk child sites", nChildren)
	e.Run.Floor("R-WALK", "child visit sites", nChildren, 70)
	// the frame, decided semantically (independent of layout): before the switch the node is
	// visited and a nil result prunes; after the switch an unconditional v.Visit(nil).
	c := e.Sib.Ctx[load.PkgDst]
	e.walkFrame(c, w)
	// Inspect: Walk is called with an adapter built from the callback f (a conversion T(f) or a
	// literal T{f} / &T{f: f}); the adapter's Visit calls the callback with the node and returns
	// the adapter itself exactly when the callback returns true, nil otherwise.
	pkg := e.Prog.Pkg(load.PkgDst)
	info := pkg.TypesInfo
	insp := load.FuncDecl(pkg, "", "Inspect")
	if insp == nil || insp.Body == nil {
		e.Run.Violation("R-WALK", "Inspect exists", "", "missing")
		return
	}
	var adapter *types.Named
	okInspect := false
	if len(insp.Body.List) == 1 {
		if es, ok := insp.Body.List[0].(*ast.ExprStmt); ok {
			if call, ok := es.X.(*ast.CallExpr); ok && schema.IsFunc(c.Callee(call), load.PkgDst, "Walk") && len(call.Args) == 2 {
				// second argument: the node parameter; first: built from the callback parameter
				var params []types.Object
				for _, p := range insp.Type.Params.List {
					for _, nm := range p.Names {
						params = append(params, info.Defs[nm])
					}
				}
				if len(params) == 2 {
					if id, ok := call.Args[1].(*ast.Ident); ok && info.Uses[id] == params[0] {
						usesF := false
						ast.Inspect(call.Args[0], func(n ast.Node) bool {
							if id, ok := n.(*ast.Ident); ok && info.Uses[id] == params[1] {
								usesF = true
							}
							return true
						})
						t := info.TypeOf(call.Args[0])
						if p, ok := t.(*types.Pointer); ok {
							t = p.Elem()
						}
						if nt, ok := t.(*types.Named); ok && usesF {
							adapter = nt
							okInspect = true
						}
					}
				}
			}
		}
	}
	e.Run.Check("R-WALK", "Inspect walks with the inspector adapter", e.Prog.Pos(insp.Pos()), okInspect, "expected Walk(<adapter built from f>, node) as the only statement")
	if adapter == nil {
		return
	}
	fd := load.FuncDecl(pkg, adapter.Obj().Name(), "Visit")
	if fd == nil || fd.Body == nil || len(fd.Recv.List[0].Names) == 0 {
		e.Run.Violation("R-WALK", "inspector.Visit exists", "", "missing")
		return
	}
	recvName := fd.Recv.List[0].Names[0].Name
	param := fd.Type.Params.List[0].Names[0].Name
	// the callback atom: a call with the node parameter as only argument whose callee is the
	// receiver or a field of it
	isAtom := func(x ast.Expr) bool {
		call, ok := ast.Unparen(x).(*ast.CallExpr)
		if !ok || len(call.Args) != 1 || c.ExprStr(call.Args[0]) != param {
			return false
		}
		f := c.ExprStr(call.Fun)
		return f == recvName || strings.HasPrefix(f, recvName+".")
	}
	run := func(val bool) string {
		var evalCond func(x ast.Expr) (bool, bool)
		evalCond = func(x ast.Expr) (bool, bool) {
			x = ast.Unparen(x)
			if isAtom(x) {
				return val, true
			}
			if u, ok := x.(*ast.UnaryExpr); ok && u.Op == token.NOT {
				v, ok := evalCond(u.X)
				return !v, ok
			}
			return false, false
		}
		var exec func(list []ast.Stmt) (string, bool)
		exec = func(list []ast.Stmt) (string, bool) {
			for _, st := range list {
				switch x := st.(type) {
				case *ast.ReturnStmt:
					if len(x.Results) == 1 {
						return c.ExprStr(x.Results[0]), true
					}
					return "?", true
				case *ast.IfStmt:
					if x.Init != nil {
						return "?", true
					}
					v, ok := evalCond(x.Cond)
					if !ok {
						return "?", true
					}
					if v {
						if r, done := exec(x.Body.List); done {
							return r, true
						}
					} else if el, ok := x.Else.(*ast.BlockStmt); ok {
						if r, done := exec(el.List); done {
							return r, true
						}
					}
				default:
					return "?", true
				}
			}
			return "", false
		}
		r, _ := exec(fd.Body.List)
		return r
	}
	t, f := run(true), run(false)
	e.Run.Check("R-WALK", "inspector.Visit continues exactly when the callback says so", e.Prog.Pos(fd.Pos()), t == recvName && f == "nil",
		fmt.Sprintf("when the callback returns true Visit returns %q (want the receiver %s), when false %q (want nil)", t, recvName, f))
}

// RApply: the child table of dstutil.apply equals Walk's; literals resolve to the right fields.
func (e *Env) RApply() {
	a := e.Sib.ByName["apply"]
	w := e.Sib.ByName["walk"]
	n := 0
	for _, tn := range e.dstNodeNames() {
		cs := a.Cases[tn]
		if cs == nil {
			continue
		}
		pos := e.casePos(cs)
		nt := e.dstTypes[tn]
		if tn == "Package" {
			e.applyPackage(cs)
			continue
		}
		for _, ev := range cs.Events {
			switch ev.Kind {
			case schema.KOpaque:
				e.Run.Violation("R-APPLY", fmt.Sprintf("apply %s: only apply/applyList calls in a case", tn), e.Prog.Pos(ev.Pos), "unrecognised statement: "+ev.Expr)
			case schema.KChild, schema.KList:
				n++
				f := nt.ByName[ev.Name]
				key := fmt.Sprintf("apply %s field literal %q", tn, ev.Name)
				switch {
				case f == nil:
					e.Run.Violation("R-APPLY", key, e.Prog.Pos(ev.Pos), "no such field: Cursor.field() panics / Replace writes nothing")
				case ev.Kind == schema.KChild:
					e.Run.Check("R-APPLY", key, e.Prog.Pos(ev.Pos), f.Kind == FNode && ev.Src == ev.Name,
						fmt.Sprintf("apply(n, %q, nil, n.%s): the literal must name the single-node field that is passed (field kind %s); Cursor.Replace writes the field named by the literal", ev.Name, ev.Src, f.Kind))
				default:
					e.Run.Check("R-APPLY", key, e.Prog.Pos(ev.Pos), f.Kind == FNodeSlice,
						fmt.Sprintf("applyList(n, %q) needs a slice-of-nodes field (kind %s)", ev.Name, f.Kind))
				}
			}
		}
		if wc := w.Cases[tn]; wc != nil {
			got, want := childSeq(cs, nil), childSeq(wc, nil)
			e.Run.Check("R-APPLY", fmt.Sprintf("apply %s child table equals Walk's", tn), pos, strings.Join(got, " ") == strings.Join(want, " "),
				fmt.Sprintf("apply: %v; Walk: %v", got, want))
		}
	}
	e.Run.Analysed("apply child sites", n)
	e.Run.Floor("R-APPLY", "apply/applyList call sites", n, 70)
	// default arm panics, nil case exists and is empty
	c := e.Sib.Ctx[load.PkgDstutil]
	e.Run.Check("R-APPLY", "apply default arm panics", e.Prog.Pos(a.Switch.Pos()), a.HasDefault && c.PanicsOnly(a.DefaultBody), "unknown node types must not be skipped silently")
	e.Run.Check("R-APPLY", "apply has an empty nil case", e.Prog.Pos(a.Switch.Pos()), a.NilCase != nil && len(a.NilCase.Body) == 0, "nil nodes are reported to pre/post but have no children")
}

// applyPackage: the files of a package are applied by name, in sorted name order: the loop that
// calls a.apply(n, name, nil, n.Files[name]) ranges over a slice that holds the keys of n.Files and
// was passed to sort.Strings — built inline or by a helper.
func (e *Env) applyPackage(cs *schema.Case) {
	c := e.Sib.Ctx[load.PkgDstutil]
	pkg := e.Prog.Pkg(load.PkgDstutil)
	info := pkg.TypesInfo
	body := cs.Clause.Body
	var loop *ast.RangeStmt
	for _, st := range body {
		if rs, ok := st.(*ast.RangeStmt); ok {
			has := false
			ast.Inspect(rs.Body, func(n ast.Node) bool {
				if call, ok := n.(*ast.CallExpr); ok && schema.IsMethod(c.Callee(call), load.PkgDstutil, "application", "apply") {
					has = true
				}
				return true
			})
			if has {
				loop = rs
			}
		}
	}
	key := "apply Package: files visited in sorted name order, by name"
	if loop == nil {
		e.Run.Violation("R-APPLY", key, e.casePos(cs), "no loop that applies the package's files")
		return
	}
	// the apply call
	okCall := false
	var nameObj types.Object
	if id, ok := loop.Value.(*ast.Ident); ok {
		nameObj = info.Defs[id]
	}
	ast.Inspect(loop.Body, func(n ast.Node) bool {
		call, ok := n.(*ast.CallExpr)
		if !ok || !schema.IsMethod(c.Callee(call), load.PkgDstutil, "application", "apply") || len(call.Args) != 4 {
			return true
		}
		a1, ok1 := call.Args[1].(*ast.Ident)
		ix, ok3 := call.Args[3].(*ast.IndexExpr)
		if ok1 && ok3 && info.Uses[a1] == nameObj && c.ExprStr(call.Args[2]) == "nil" {
			if p, okp := c.Path(ix.X, cs.NObj); okp && p == "Files" {
				if kid, ok := ix.Index.(*ast.Ident); ok && info.Uses[kid] == nameObj {
					if p0, ok0 := c.Path(call.Args[0], cs.NObj); ok0 && p0 == "" {
						okCall = true
					}
				}
			}
		}
		return true
	})
	// the slice ranged over: sorted keys of n.Files
	sortedKeysIn := func(stmts []ast.Stmt, sliceObj types.Object, isMap func(ast.Expr) bool, before token.Pos) bool {
		collected, sorted := token.NoPos, token.NoPos
		for _, st := range stmts {
			if before.IsValid() && st.Pos() >= before {
				break
			}
			switch x := st.(type) {
			case *ast.RangeStmt:
				kid, ok := x.Key.(*ast.Ident)
				if !ok || !isMap(x.X) || x.Value != nil || len(x.Body.List) != 1 {
					continue
				}
				if as, ok := x.Body.List[0].(*ast.AssignStmt); ok && len(as.Lhs) == 1 && len(as.Rhs) == 1 {
					lid, ok1 := as.Lhs[0].(*ast.Ident)
					ap, ok2 := as.Rhs[0].(*ast.CallExpr)
					if ok1 && ok2 && info.Uses[lid] == sliceObj && len(ap.Args) == 2 && c.ExprStr(ap.Fun) == "append" {
						b, okb := ap.Args[0].(*ast.Ident)
						k, okk := ap.Args[1].(*ast.Ident)
						if okb && okk && info.Uses[b] == sliceObj && info.Uses[k] == info.Defs[kid] {
							collected = x.Pos()
						}
					}
				}
			case *ast.ExprStmt:
				if call, ok := x.X.(*ast.CallExpr); ok && (funcKey(c.Callee(call)) == "sort.Strings" || funcKey(c.Callee(call)) == "slices.Sort") && len(call.Args) == 1 {
					if id, ok := call.Args[0].(*ast.Ident); ok && info.Uses[id] == sliceObj && collected.IsValid() {
						sorted = x.Pos()
					}
				}
			}
		}
		return collected.IsValid() && sorted > collected
	}
	okSorted := false
	switch x := loop.X.(type) {
	case *ast.Ident:
		obj := info.Uses[x]
		// inline: built and sorted in the case body before the loop
		okSorted = sortedKeysIn(body, obj, func(m ast.Expr) bool { p, ok := c.Path(m, cs.NObj); return ok && p == "Files" }, loop.Pos())
		if !okSorted {
			// names := helper(n.Files)
			if def := singleDefIn(info, body, obj); def != nil {
				okSorted = e.sortedKeysHelper(c, def, cs, sortedKeysIn)
			}
		}
	case *ast.CallExpr:
		okSorted = e.sortedKeysHelper(c, x, cs, sortedKeysIn)
	}
	e.Run.Check("R-APPLY", key, e.casePos(cs), okCall && okSorted,
		fmt.Sprintf("apply call has the form a.apply(n, name, nil, n.Files[name]): %v; the names come from the keys of n.Files and are passed to sort.Strings before the loop: %v — map order would make the callback sequence differ from run to run", okCall, okSorted))
}

// sortedKeysHelper: call is h(n.Files) with h a same-package function whose body collects the
// keys of its map parameter into a slice, sorts it with sort.Strings and returns it.
func (e *Env) sortedKeysHelper(c *schema.Ctx, x ast.Expr, cs *schema.Case, sortedKeysIn func([]ast.Stmt, types.Object, func(ast.Expr) bool, token.Pos) bool) bool {
	call, ok := x.(*ast.CallExpr)
	if !ok || len(call.Args) != 1 {
		return false
	}
	if p, okp := c.Path(call.Args[0], cs.NObj); !okp || p != "Files" {
		return false
	}
	fn := c.Callee(call)
	if fn == nil || fn.Pkg() != c.Pkg.Types {
		return false
	}
	for _, h := range load.AllFuncDecls(c.Pkg) {
		if c.Info.Defs[h.Name] != types.Object(fn) || h.Body == nil || len(h.Body.List) == 0 {
			continue
		}
		var param types.Object
		for _, p := range h.Type.Params.List {
			for _, nm := range p.Names {
				param = c.Info.Defs[nm]
			}
		}
		ret, ok := h.Body.List[len(h.Body.List)-1].(*ast.ReturnStmt)
		if !ok || len(ret.Results) != 1 {
			return false
		}
		rid, ok := ret.Results[0].(*ast.Ident)
		if !ok {
			return false
		}
		return sortedKeysIn(h.Body.List, c.Info.Uses[rid], func(m ast.Expr) bool { id, ok := m.(*ast.Ident); return ok && c.Info.Uses[id] == param }, token.NoPos)
	}
	return false
}

func singleDefIn(info *types.Info, stmts []ast.Stmt, obj types.Object) ast.Expr {
	var def ast.Expr
	n := 0
	for _, st := range stmts {
		ast.Inspect(st, func(nd ast.Node) bool {
			as, ok := nd.(*ast.AssignStmt)
			if !ok {
				return true
			}
			for i, l := range as.Lhs {
				if lid, ok := l.(*ast.Ident); ok && (info.Defs[lid] == obj || (as.Tok != token.DEFINE && info.Uses[lid] == obj)) {
					n++
					if len(as.Lhs) == len(as.Rhs) {
						def = as.Rhs[i]
					}
				}
			}
			return true
		})
	}
	if n == 1 {
		return def
	}
	return nil
}

// walkFrame: the frame of Walk, on values rather than statements. W = v.Visit(node) is the child
// visitor (v itself re-assigned, or a new local); Walk returns when W is nil; the children are
// walked with W (in Walk's own switch or in a helper that receives W and the node); the last thing
// Walk does, unconditionally, is W.Visit(nil) — on the child visitor, not on the one it was
// called with.
func (e *Env) walkFrame(c *schema.Ctx, w *schema.Sibling) {
	info := c.Info
	walk := w.Func
	if w.Frame != nil {
		walk = w.Frame
	}
	pos := e.Prog.Pos(walk.Pos())
	var params []types.Object
	for _, p := range walk.Type.Params.List {
		for _, nm := range p.Names {
			params = append(params, info.Defs[nm])
		}
	}
	if len(params) != 2 {
		e.Run.Violation("R-WALK", "Walk(v, node)", pos, "signature changed")
		return
	}
	vObj, nodeObj := params[0], params[1]
	objOf := func(x ast.Expr) types.Object {
		id, ok := ast.Unparen(x).(*ast.Ident)
		if !ok {
			return nil
		}
		if o := info.Defs[id]; o != nil {
			return o
		}
		return info.Uses[id]
	}
	isVisitOf := func(x ast.Expr, recv types.Object, argNil bool) bool {
		call, ok := ast.Unparen(x).(*ast.CallExpr)
		if !ok || len(call.Args) != 1 {
			return false
		}
		se, ok := call.Fun.(*ast.SelectorExpr)
		if !ok || se.Sel.Name != "Visit" || objOf(se.X) != recv {
			return false
		}
		if argNil {
			tv, ok := info.Types[call.Args[0]]
			return ok && tv.IsNil()
		}
		return objOf(call.Args[0]) == nodeObj
	}
	// (1) W
	var W types.Object
	var visitPos token.Pos
	ast.Inspect(walk.Body, func(n ast.Node) bool {
		as, ok := n.(*ast.AssignStmt)
		if ok && len(as.Lhs) == 1 && len(as.Rhs) == 1 && isVisitOf(as.Rhs[0], vObj, false) && W == nil {
			W = objOf(as.Lhs[0])
			visitPos = as.End()
		}
		return true
	})
	e.Run.Check("R-WALK", "Walk prologue: visit the node first, prune on nil", pos, W != nil, "no `w := v.Visit(node)` (or v = v.Visit(node)) in Walk")
	if W == nil {
		return
	}
	// (2) prune: an if with condition W == nil whose body returns, before anything else walks
	pruned := false
	ast.Inspect(walk.Body, func(n ast.Node) bool {
		is, ok := n.(*ast.IfStmt)
		if !ok || len(is.Body.List) == 0 {
			return true
		}
		be, ok := ast.Unparen(is.Cond).(*ast.BinaryExpr)
		if !ok || be.Op != token.EQL || objOf(be.X) != W {
			return true
		}
		if tv, ok := info.Types[be.Y]; !ok || !tv.IsNil() {
			return true
		}
		if _, isRet := is.Body.List[len(is.Body.List)-1].(*ast.ReturnStmt); isRet {
			pruned = true
		}
		return true
	})
	e.Run.Check("R-WALK", "Walk prologue: a nil child visitor prunes the subtree", pos, pruned, "no `if w == nil { return }` for the visitor returned by v.Visit(node)")
	// (3) children walked with W
	if w.Frame != nil {
		okCall := false
		ast.Inspect(walk.Body, func(n ast.Node) bool {
			call, ok := n.(*ast.CallExpr)
			if !ok || len(call.Args) != 2 {
				return true
			}
			if fn := c.Callee(call); fn != nil && info.Defs[w.Func.Name] == types.Object(fn) {
				okCall = objOf(call.Args[0]) == W && objOf(call.Args[1]) == nodeObj && call.Pos() > visitPos
			}
			return true
		})
		e.Run.Check("R-WALK", "Walk hands the child visitor and the node to the helper that walks the children", pos, okCall, "the children must be walked with the visitor returned by v.Visit(node)")
	} else {
		e.Run.Check("R-WALK", "Walk's children are walked with the child visitor", pos, W == vObj,
			"the cases of the switch walk with v; v must have been re-assigned to the visitor returned by v.Visit(node)")
	}
	// (4) last statement: W.Visit(nil)
	okEpi := false
	if n := len(walk.Body.List); n > 0 {
		if es, ok := walk.Body.List[n-1].(*ast.ExprStmt); ok {
			okEpi = isVisitOf(es.X, W, true)
		}
	}
	e.Run.Check("R-WALK", "Walk epilogue: v.Visit(nil) after the children", pos, okEpi,
		"the last statement of Walk must be an unconditional Visit(nil) on the visitor that v.Visit(node) returned (the one the children were walked with) — on any other visitor the closing call goes to the wrong level")
	// nothing after the switch in the helper
	if w.Frame != nil {
		e.Run.Check("R-WALK", "the children helper does nothing after its switch", e.Prog.Pos(w.Func.Pos()), len(w.Epilogue) == 0 && len(w.Prologue) == 0, "statements before or after the type switch of the helper")
	}
}
