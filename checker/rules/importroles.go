package rules

import (
	"fmt"
	"go/ast"
	"go/token"
	"go/types"
	"strings"

	"dstverif/load"
)

// RImportRoles (R-ROLE): the three kinds of import spec keep their roles through updateImports.
//
//   - a blank import (`_ "path"`) of a package the code does not refer to stays: it enters the
//     alias table (the one exception being a blank import of a package that *is* referred to,
//     which becomes an ordinary import) and every `_` entry of that table is marked required;
//   - dot and blank imports get no name of their own: ("", alias) under exactly
//     `alias == "." || alias == "_"`, and the conflict-free name search (findAlias) is never
//     reached for them;
//   - a spec stays in its declaration exactly when its path is required;
//   - the loops over the imports of the file visit every element (no break).
//
// Conditions are path conditions of the stores, compared propositionally. Each obligation exists
// only where the statement it speaks about is recognised (restructured code that assigns the names
// differently is not judged by this rule: no instance floor, the counts are in the evidence).
func (e *Env) RImportRoles() {
	pkg := e.Prog.Pkg(load.PkgDecorator)
	info := pkg.TypesInfo
	c := e.Sib.Ctx[load.PkgDecorator]
	fd := load.FuncDecl(pkg, "FileRestorer", "updateImports")
	if fd == nil || fd.Body == nil {
		e.Run.Violation("R-ROLE", "updateImports exists", "", "function missing")
		return
	}
	pos := func(n ast.Node) string { return e.Prog.Pos(n.Pos()) }
	isIndexOf := func(x ast.Expr, base string) (*ast.IndexExpr, bool) {
		ix, ok := ast.Unparen(x).(*ast.IndexExpr)
		if !ok || types.ExprString(ix.X) != base {
			return nil, false
		}
		return ix, true
	}
	nAlias, nReq, nNames, nKeep := 0, 0, 0, 0
	ast.Inspect(fd.Body, func(nd ast.Node) bool {
		switch v := nd.(type) {
		case *ast.RangeStmt:
			// no break in a loop over the file's imports / required paths
			x := types.ExprString(v.X)
			if x == "importsFound" || x == "r.Alias" || x == "effectiveAlias" || x == "importsRequiredOrdered" || x == "blocks" || strings.HasSuffix(x, ".Specs") {
				ast.Inspect(v.Body, func(m ast.Node) bool {
					switch b := m.(type) {
					case *ast.ForStmt, *ast.RangeStmt, *ast.SwitchStmt, *ast.TypeSwitchStmt, *ast.SelectStmt, *ast.FuncLit:
						return false
					case *ast.BranchStmt:
						if b.Tok == token.BREAK {
							e.Run.Violation("R-ROLE", "updateImports: the loop over "+x+" visits every element", pos(b), "a break leaves the loop at the first element that takes this path: the remaining imports are not looked at (no name, no alias, not kept)")
						}
					}
					return true
				})
			}
		case *ast.AssignStmt:
			for i, l := range v.Lhs {
				// (a1) effectiveAlias[path] = alias: reachable for a blank import of an unused package
				if ix, ok := isIndexOf(l, "effectiveAlias"); ok && i < len(v.Rhs) && len(v.Lhs) == len(v.Rhs) {
					k, a := types.ExprString(ix.Index), types.ExprString(v.Rhs[i])
					if _, isID := ast.Unparen(v.Rhs[i]).(*ast.Ident); !isID {
						continue
					}
					nAlias++
					pc, okp := pathCond(c, fd.Body.List, v)
					key := fmt.Sprintf("updateImports: a blank import of a package that is not referred to keeps its entry in the alias table (%s)", types.ExprString(l))
					un, dec := unsatWith(orTrue(pc), a+` == "_" && !packagesInUse[`+k+`]`)
					if !okp || !dec {
						e.Run.Undecided("R-ROLE", key, pos(v), "condition not propositional: "+pc)
						continue
					}
					e.Run.Check("R-ROLE", key, pos(v), !un, "the store runs under «"+pc+"», which excludes `"+a+` == "_"`+"` for a package no identifier refers to: side-effect imports (`_ \"net/http/pprof\"`, database drivers) are dropped from the file")
					// … and the other way round: a blank alias for a package that IS referred to is not
					// taken over (the package needs a real name)
					if un2, dec2 := unsatWith(orTrue(pc), a+` == "_" && packagesInUse[`+k+`]`); dec2 {
						e.Run.Check("R-ROLE", fmt.Sprintf("updateImports: a blank alias is not taken over for a package the code refers to (%s)", types.ExprString(l)), pos(v), un2,
							"the store runs under «"+pc+"», which allows `"+a+` == "_"`+"` for a package that identifiers refer to: the import stays blank, the package has no name in the file and its references are printed without a qualifier")
					}
				}
				// (a2) importsRequired[path] = true inside the range over effectiveAlias
				if ix, ok := isIndexOf(l, "importsRequired"); ok {
					var rs *ast.RangeStmt
					ast.Inspect(fd.Body, func(m ast.Node) bool {
						if r, ok := m.(*ast.RangeStmt); ok && r.Body.Pos() <= v.Pos() && v.End() <= r.Body.End() && types.ExprString(r.X) == "effectiveAlias" {
							rs = r
						}
						return true
					})
					if rs == nil || rs.Value == nil {
						continue
					}
					nReq++
					a, k := types.ExprString(rs.Value), types.ExprString(ix.Index)
					key := "updateImports: every blank entry of the alias table is required"
					pc, okp := pathCond(c, rs.Body.List, v)
					eq, dec := equivalentGuards(orTrue(pc), a+` == "_"`)
					if !okp || !dec {
						e.Run.Undecided("R-ROLE", key, pos(v), "condition not propositional: "+pc)
						continue
					}
					e.Run.Check("R-ROLE", key, pos(v), eq && k == types.ExprString(rs.Key), "importsRequired["+k+"] is set under «"+pc+"», specified `"+a+` == "_"`+"`: a blank import that is not marked required is deleted with the unused imports (or every aliased import is kept although nothing uses it)")
				}
			}
			// (b) r.packageNames[path], aliases[path] = "", alias
			if len(v.Lhs) == 2 && len(v.Rhs) == 2 {
				if _, ok := isIndexOf(v.Lhs[1], "aliases"); ok && types.ExprString(v.Rhs[0]) == `""` {
					if id, isID := ast.Unparen(v.Rhs[1]).(*ast.Ident); isID {
						nNames++
						a := id.Name
						var loop *ast.RangeStmt
						ast.Inspect(fd.Body, func(m ast.Node) bool {
							if r, ok := m.(*ast.RangeStmt); ok && r.Body.Pos() <= v.Pos() && v.End() <= r.Body.End() {
								loop = r
							}
							return true
						})
						if loop == nil {
							return true
						}
						key := "updateImports: dot and blank imports get no name of their own, and only they"
						pc, okp := pathCond(c, loop.Body.List, v)
						// within what is left after the cgo case: exactly alias == "." || alias == "_"
						want := a + ` == "." || ` + a + ` == "_"`
						onlyThen, d1 := unsatWith(orTrue(pc), "!("+want+")")
						if !okp || !d1 {
							e.Run.Undecided("R-ROLE", key, pos(v), "condition not propositional: "+pc)
							return true
						}
						// and the name search is not reached for them
						reached := ""
						ast.Inspect(loop.Body, func(m ast.Node) bool {
							call, ok := m.(*ast.CallExpr)
							if !ok {
								return true
							}
							if id, ok := call.Fun.(*ast.Ident); ok && id.Name == "findAlias" {
								if pcc, okc := pathCond(c, loop.Body.List, call); okc {
									for _, alt := range []string{a + ` == "."`, a + ` == "_"`} {
										if un, dec := unsatWith(orTrue(pcc), alt); dec && !un {
											reached = alt
										}
									}
								}
							}
							return true
						})
						e.Run.Check("R-ROLE", key, pos(v), onlyThen && reached == "",
							"(\"\", "+a+") is stored under «"+pc+"» (specified: only when `"+want+"`), and the conflict-free name search is reachable when `"+reached+"`: a dot or blank import is given a made-up name (the spec is rewritten, identifiers are qualified with it), or an ordinary import loses its name")
					}
				}
			}
			// (c) specs = append(specs, spec) in the pass over a declaration's specs
			if len(v.Lhs) == 1 && len(v.Rhs) == 1 {
				if call, ok := ast.Unparen(v.Rhs[0]).(*ast.CallExpr); ok && len(call.Args) == 2 {
					if id, ok := call.Fun.(*ast.Ident); ok && id.Name == "append" && types.ExprString(call.Args[0]) == types.ExprString(v.Lhs[0]) {
						if _, tn := namedOf(info.TypeOf(call.Args[1])); tn == "ImportSpec" || tn == "Spec" {
							var loop *ast.RangeStmt
							ast.Inspect(fd.Body, func(m ast.Node) bool {
								if r, ok := m.(*ast.RangeStmt); ok && r.Body.Pos() <= v.Pos() && v.End() <= r.Body.End() && strings.HasSuffix(types.ExprString(r.X), ".Specs") {
									loop = r
								}
								return true
							})
							if loop == nil {
								return true
							}
							nKeep++
							key := "updateImports: a spec stays in its declaration exactly when its path is required"
							pc, okp := pathCond(c, loop.Body.List, v)
							eq, dec := equivalentGuards(orTrue(pc), "importsRequired[path]")
							if !okp || !dec {
								e.Run.Undecided("R-ROLE", key, pos(v), "condition not propositional: "+pc)
								return true
							}
							e.Run.Check("R-ROLE", key, pos(v), eq, "the spec is kept under «"+pc+"», specified `importsRequired[path]`: an import nothing refers to stays in the file (it does not compile), or a required one is removed")
						}
					}
				}
			}
		}
		return true
	})
	// the name written into an import spec is the alias that was CHOSEN for its path (aliases[…],
	// filled from findAlias together with the name used in the code), not the alias that was
	// requested (the source's, the Alias map's): after a clash the two differ
	ast.Inspect(fd.Body, func(nd ast.Node) bool {
		as, ok := nd.(*ast.AssignStmt)
		if !ok || len(as.Lhs) != 1 || len(as.Rhs) != 1 {
			return true
		}
		se, ok := ast.Unparen(as.Lhs[0]).(*ast.SelectorExpr)
		if !ok || se.Sel.Name != "Name" {
			return true
		}
		var nameExpr ast.Expr
		if _, tn := namedOf(info.TypeOf(se.X)); tn == "ImportSpec" {
			// S.Name = &dst.Ident{Name: X} (or nil)
			if u, ok := ast.Unparen(as.Rhs[0]).(*ast.UnaryExpr); ok {
				if lit, ok := ast.Unparen(u.X).(*ast.CompositeLit); ok {
					for _, el := range lit.Elts {
						if kv, ok := el.(*ast.KeyValueExpr); ok && types.ExprString(kv.Key) == "Name" {
							nameExpr = kv.Value
						}
					}
				}
			}
		} else if inner, ok := ast.Unparen(se.X).(*ast.SelectorExpr); ok && inner.Sel.Name == "Name" {
			if _, tn := namedOf(info.TypeOf(inner.X)); tn == "ImportSpec" {
				nameExpr = as.Rhs[0] // S.Name.Name = X
			}
		}
		if nameExpr == nil {
			return true
		}
		txt := c.ExprStr(nameExpr)
		if id, ok := ast.Unparen(nameExpr).(*ast.Ident); ok {
			// a local that holds the table entry (`alias := aliases[path]`)
			if d := singleDef(info, fd, id); d != nil {
				txt = c.ExprStr(d)
			}
		}
		e.Run.Check("R-ALIAS", "updateImports: the name written into an import spec is the alias chosen for its path", pos(as), strings.Contains(txt, "aliases["),
			"the spec is named `"+txt+"`, which is not taken from aliases[…] (the alias findAlias chose, stored together with the name the code is printed with): when two imports want the same name the code says foo1.X and the spec still says foo")
		return true
	})
	// an existing spec whose alias differs from the chosen one is renamed: among the stores that
	// give a spec of a declaration its name from aliases[…] one is reachable for a spec that has
	// a name already
	{
		type nameStore struct {
			pc, nameExpr string
			at           ast.Node
		}
		var stores []nameStore
		ast.Inspect(fd.Body, func(nd ast.Node) bool {
			as, ok := nd.(*ast.AssignStmt)
			if !ok || len(as.Lhs) != 1 || len(as.Rhs) != 1 {
				return true
			}
			mentions := false
			ast.Inspect(as.Rhs[0], func(m ast.Node) bool {
				if ix, ok := m.(*ast.IndexExpr); ok && types.ExprString(ix.X) == "aliases" {
					mentions = true
				}
				return true
			})
			if !mentions {
				return true
			}
			// LHS: S.Name or S.Name.Name with S an import spec taken from a declaration's list
			var specX ast.Expr
			if se, ok := ast.Unparen(as.Lhs[0]).(*ast.SelectorExpr); ok && se.Sel.Name == "Name" {
				specX = se.X
				if inner, ok := ast.Unparen(se.X).(*ast.SelectorExpr); ok && inner.Sel.Name == "Name" {
					specX = inner.X
				}
			}
			if specX == nil {
				return true
			}
			if _, tn := namedOf(info.TypeOf(specX)); tn != "ImportSpec" {
				return true
			}
			var loop *ast.RangeStmt
			ast.Inspect(fd.Body, func(m ast.Node) bool {
				if r, ok := m.(*ast.RangeStmt); ok && r.Body.Pos() <= as.Pos() && as.End() <= r.Body.End() && strings.HasSuffix(types.ExprString(r.X), ".Specs") {
					loop = r
				}
				return true
			})
			if loop == nil {
				return true
			}
			if pc, okp := pathCond(c, loop.Body.List, as); okp {
				stores = append(stores, nameStore{pc, c.ExprStr(specX) + ".Name", as})
			}
			return true
		})
		if len(stores) > 0 {
			renames := false
			for _, st := range stores {
				if un, dec := unsatWith(orTrue(st.pc), st.nameExpr+" != nil"); dec && !un {
					renames = true
				}
			}
			e.Run.Check("R-ROLE", "updateImports: a spec that has an alias other than the chosen one is renamed", pos(stores[0].at), renames,
				"every store that names an existing spec from aliases[…] runs only for a spec without a name: an alias given through FileRestorer.Alias (or made necessary by a clash) does not replace the alias written in the source")
		}
	}
	// whatever the shape of the naming code: some store into aliases[…] hands the alias of the
	// import on unchanged (that is how `.` and `_` survive)
	plain := false
	ast.Inspect(fd.Body, func(nd ast.Node) bool {
		as, ok := nd.(*ast.AssignStmt)
		if !ok || len(as.Lhs) != len(as.Rhs) {
			return true
		}
		for i, l := range as.Lhs {
			if _, ok := isIndexOf(l, "aliases"); ok {
				if id, ok := ast.Unparen(as.Rhs[i]).(*ast.Ident); ok {
					if v, ok := info.Uses[id].(*types.Var); ok && !v.IsField() {
						plain = true
					}
				}
			}
		}
		return true
	})
	e.Run.Check("R-ROLE", "updateImports: the alias of a dot or blank import is handed on to its spec unchanged", pos(fd), plain,
		"no store into aliases[…] takes the import's alias as it is: `.` and `_` are the only aliases that are not chosen by the name search, without such a store they are lost and the import becomes an ordinary one")
	e.Run.Analysed("R-ROLE stores into the alias table", nAlias)
	e.Run.Analysed("R-ROLE blank entries marked required", nReq)
	e.Run.Analysed("R-ROLE nameless (dot / blank) name assignments", nNames)
	e.Run.Analysed("R-ROLE kept-spec appends", nKeep)
}
