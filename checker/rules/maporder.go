package rules

import (
	"dstverif/schema"
	"fmt"
	"go/ast"
	"go/parser"
	"go/token"
	"go/types"
	"golang.org/x/tools/go/ast/astutil"
	"regexp"
	"strconv"
	"strings"

	"golang.org/x/tools/go/packages"

	"dstverif/load"
)

// R-MAPORDER: every range over a map in the in-scope packages is order-insensitive — its body
// only (i) stores into maps/sets keyed by the range key or by a value derived injectively from
// the range value, (ii) collects keys into a slice that is sorted before any other use,
// (iii) computes an any/all boolean, (iv) calls memoising converters / pure functions and stores
// the result under the range key, (v) returns an error — or it is in the frozen table with a reason.

// frozen, keyed by function + ranged expression.
var mapOrderFrozen = map[string]string{
	"github.com/dave/dst.NewPackage files":                                    "fork of go/ast.NewPackage: same map-order dependence as upstream (which file's package name / which redeclaration error comes first); kept identical by R-FORK",
	"github.com/dave/dst.NewPackage file.Scope.Objects":                       "fork of go/ast.NewPackage (see above)",
	"github.com/dave/dst.NewPackage pkg.Data.(*Scope).Objects":                "fork of go/ast.NewPackage (see above)",
	"github.com/dave/dst.Scope.Objects":                                       "debug string, identical to go/ast.Scope.String",
	"github.com/dave/dst.Walk n.Files":                                        "identical to go/ast.Walk: package files are walked in map order (C13 compares with upstream)",
	"github.com/dave/dst/decorator.(*fileDecorator).addNodeFragments n.Files": "fragments of different files have disjoint position ranges and the list is stable-sorted by position afterwards",
	"github.com/dave/dst/decorator.(*fileDecorator).fragment val.Files":       "per-file comment/newline fragments; the list is stable-sorted by position afterwards (cross-file line filtering is checked by R-FILESCOPE)",
	"github.com/dave/dst/decorator.(*FileRestorer).restoreNode n.Files":       "restoring a dst.Package is unreachable from the public API (RestoreFile takes *dst.File; object Decl/Data nodes are never packages)",
}

type mapRange struct {
	pkg  *packages.Package
	fd   *ast.FuncDecl
	rs   *ast.RangeStmt
	name string
}

func (e *Env) mapRanges() []mapRange {
	var out []mapRange
	for _, pkg := range e.Prog.InScopePkgs() {
		for _, fd := range load.AllFuncDecls(pkg) {
			if fd.Body == nil {
				continue
			}
			ast.Inspect(fd.Body, func(n ast.Node) bool {
				rs, ok := n.(*ast.RangeStmt)
				if !ok {
					return true
				}
				if _, isMap := pkg.TypesInfo.TypeOf(rs.X).Underlying().(*types.Map); isMap {
					name := pkg.PkgPath + "." + load.FuncName(fd) + " " + types.ExprString(rs.X)
					// a field of the receiver is named by type and field, whichever method ranges over it
					if se, ok := rs.X.(*ast.SelectorExpr); ok && fd.Recv != nil && len(fd.Recv.List) == 1 && len(fd.Recv.List[0].Names) == 1 {
						if id, ok := se.X.(*ast.Ident); ok && pkg.TypesInfo.Uses[id] == pkg.TypesInfo.Defs[fd.Recv.List[0].Names[0]] {
							if v, ok := pkg.TypesInfo.Uses[se.Sel].(*types.Var); ok && v.IsField() {
								name = pkg.PkgPath + "." + recvTypeName(fd) + "." + v.Name()
							}
						}
					}
					out = append(out, mapRange{pkg, fd, rs, name})
				}
				return true
			})
		}
	}
	return out
}

// pure / memoising callees allowed inside an order-insensitive body.
func allowedCallee(fn *types.Func) bool {
	if fn == nil {
		return false
	}
	k := funcKey(fn)
	switch k {
	case "(*" + load.PkgDecorator + ".fileDecorator).decorateNode", "(*" + load.PkgDecorator + ".fileDecorator).decorateObject",
		"(*" + load.PkgDecorator + ".fileDecorator).decorateScope", "(*" + load.PkgDecorator + ".FileRestorer).restoreObject",
		"(*" + load.PkgDecorator + ".FileRestorer).restoreScope", "(*" + load.PkgDecorator + ".Decorator).DecorateNode",
		load.PkgDst + ".Clone", load.PkgDst + ".CloneObject", load.PkgDst + ".CloneScope",
		load.PkgDecorator + ".mustUnquote", "fmt.Errorf", "fmt.Sprintf",
		"(" + load.PkgResolver + ".RestorerResolver).ResolvePackage":
		return true
	}
	if fn.Pkg() != nil && fn.Pkg().Path() == "strings" {
		return true
	}
	return false
}

type moCtx struct {
	e      *Env
	info   *types.Info
	fd     *ast.FuncDecl
	key    types.Object
	val    types.Object
	ranged string
	why    string
	slices map[types.Object]bool // slices the body appends the key/value to (must be sorted after)
	cnts   map[types.Object]bool // counters used as slice index
	body   *ast.BlockStmt        // the loop body
}

func (m *moCtx) fail(format string, a ...interface{}) bool {
	if m.why == "" {
		m.why = fmt.Sprintf(format, a...)
	}
	return false
}

// pureExpr: no calls except allowed callees, builtins and conversions.
func (m *moCtx) pureExpr(x ast.Expr) bool {
	ok := true
	ast.Inspect(x, func(n ast.Node) bool {
		call, isCall := n.(*ast.CallExpr)
		if !isCall {
			return true
		}
		if tv, found := m.info.Types[call.Fun]; found && tv.IsType() {
			return true
		}
		if id, isID := call.Fun.(*ast.Ident); isID {
			if _, isB := m.info.Uses[id].(*types.Builtin); isB {
				if id.Name == "append" || id.Name == "delete" || id.Name == "copy" {
					ok = false
				}
				return true
			}
		}
		if m.pureLocalClosure(call) || m.memoisedCallee(call) {
			return true
		}
		if !allowedCallee(calleeFunc(m.info, call)) {
			ok = false
			m.fail("call to %s inside the loop body is not known to be order-insensitive", types.ExprString(call.Fun))
		}
		return true
	})
	return ok
}

// pureLocalClosure: the call is to a local variable of the enclosing function that is defined
// once, by a function literal whose body is a single return of call-free reads (a named
// predicate): calling it in the loop is as order-insensitive as writing the expression inline.
func (m *moCtx) pureLocalClosure(call *ast.CallExpr) bool {
	id, ok := call.Fun.(*ast.Ident)
	if !ok || m.fd == nil || m.fd.Body == nil {
		return false
	}
	v, ok := m.info.Uses[id].(*types.Var)
	if !ok {
		return false
	}
	var lit *ast.FuncLit
	writes := 0
	ast.Inspect(m.fd.Body, func(n ast.Node) bool {
		switch x := n.(type) {
		case *ast.AssignStmt:
			for i, l := range x.Lhs {
				lid, ok := l.(*ast.Ident)
				if !ok || (m.info.Defs[lid] != types.Object(v) && m.info.Uses[lid] != types.Object(v)) {
					continue
				}
				writes++
				if len(x.Lhs) == len(x.Rhs) {
					lit, _ = x.Rhs[i].(*ast.FuncLit)
				}
			}
		case *ast.UnaryExpr:
			if aid, ok := x.X.(*ast.Ident); ok && x.Op == token.AND && m.info.Uses[aid] == types.Object(v) {
				writes += 2
			}
		}
		return true
	})
	if writes != 1 || lit == nil || len(lit.Body.List) != 1 {
		return false
	}
	ret, ok := lit.Body.List[0].(*ast.ReturnStmt)
	if !ok {
		return false
	}
	pure := true
	for _, r := range ret.Results {
		ast.Inspect(r, func(n ast.Node) bool {
			switch c := n.(type) {
			case *ast.CallExpr:
				if tv, found := m.info.Types[c.Fun]; found && tv.IsType() {
					return true
				}
				if bid, isID := c.Fun.(*ast.Ident); isID {
					if _, isB := m.info.Uses[bid].(*types.Builtin); isB && (bid.Name == "len" || bid.Name == "cap") {
						return true
					}
				}
				if !allowedCallee(calleeFunc(m.info, c)) {
					pure = false
				}
			case *ast.FuncLit:
				pure = false
			}
			return true
		})
	}
	return pure
}

func (m *moCtx) mentions(x ast.Node, obj types.Object) bool {
	found := false
	ast.Inspect(x, func(n ast.Node) bool {
		if id, ok := n.(*ast.Ident); ok && obj != nil && m.info.Uses[id] == obj {
			found = true
		}
		return true
	})
	return found
}

func (m *moCtx) stmts(list []ast.Stmt) bool {
	for _, s := range list {
		if !m.stmt(s) {
			return false
		}
	}
	return true
}

func (m *moCtx) stmt(s ast.Stmt) bool {
	switch x := s.(type) {
	case *ast.BranchStmt:
		if x.Tok == token.CONTINUE {
			return true
		}
		return m.fail("%s leaves the loop at an order-dependent point", x.Tok)
	case *ast.IfStmt:
		if x.Init != nil && !m.stmt(x.Init) {
			return false
		}
		if !m.pureExpr(x.Cond) {
			return false
		}
		if !m.stmts(x.Body.List) {
			return false
		}
		switch el := x.Else.(type) {
		case *ast.BlockStmt:
			return m.stmts(el.List)
		case *ast.IfStmt:
			return m.stmt(el)
		}
		return true
	case *ast.SwitchStmt:
		// a switch over a pure tag with pure case values: each clause body is judged like an if
		// body (fallthrough only chains two such bodies)
		if x.Init != nil && !m.stmt(x.Init) {
			return false
		}
		if x.Tag != nil && !m.pureExpr(x.Tag) {
			return false
		}
		// a switch on the range key itself with constant cases: each clause runs for at most one
		// iteration (a map holds a key once), so a plain store into a location that no other clause
		// writes is the same whatever the order
		onKey := false
		if tid, ok := ast.Unparen(x.Tag).(*ast.Ident); ok && x.Tag != nil && m.key != nil && m.info.Uses[tid] == m.key {
			onKey = true
		}
		written := map[string]int{}
		if onKey {
			for _, cl := range x.Body.List {
				for _, st := range cl.(*ast.CaseClause).Body {
					if as, ok := st.(*ast.AssignStmt); ok && as.Tok == token.ASSIGN && len(as.Lhs) == 1 {
						written[types.ExprString(as.Lhs[0])]++
					}
				}
			}
		}
		prevFalls := false
		for _, cl := range x.Body.List {
			cc := cl.(*ast.CaseClause)
			allConst := len(cc.List) > 0 && !prevFalls // a clause that is fallen into runs for two keys
			prevFalls = false
			if k := len(cc.Body); k > 0 {
				if br, ok := cc.Body[k-1].(*ast.BranchStmt); ok && br.Tok == token.FALLTHROUGH {
					prevFalls = true
				}
			}
			for _, v := range cc.List {
				if !m.pureExpr(v) {
					return false
				}
				if tv, ok := m.info.Types[v]; !ok || tv.Value == nil {
					allConst = false
				}
			}
			for _, st := range cc.Body {
				if br, ok := st.(*ast.BranchStmt); ok && (br.Tok == token.FALLTHROUGH || (br.Tok == token.BREAK && br.Label == nil)) {
					continue
				}
				if as, ok := st.(*ast.AssignStmt); ok && onKey && allConst && len(cc.List) == 1 && as.Tok == token.ASSIGN && len(as.Lhs) == 1 && len(as.Rhs) == 1 {
					if _, isSel := as.Lhs[0].(*ast.SelectorExpr); isSel && written[types.ExprString(as.Lhs[0])] == 1 && m.pureExpr(as.Rhs[0]) {
						continue
					}
				}
				if !m.stmt(st) {
					return false
				}
			}
		}
		return true
	case *ast.ReturnStmt:
		// any/all boolean or error return: constants, nil, or an error value
		for _, r := range x.Results {
			tv := m.info.Types[r]
			if tv.Value != nil || tv.IsNil() {
				continue
			}
			if id, ok := r.(*ast.Ident); ok && (id.Name == "true" || id.Name == "false") {
				continue
			}
			if types.Identical(tv.Type, types.Universe.Lookup("error").Type()) {
				continue // which of several errors is returned is not constrained
			}
			return m.fail("returns the order-dependent value %s from inside the loop", types.ExprString(r))
		}
		return true
	case *ast.IncDecStmt:
		if id, ok := x.X.(*ast.Ident); ok {
			if o := m.info.Uses[id]; o != nil {
				m.cnts[o] = true
				return true
			}
		}
		return m.fail("increment of %s", types.ExprString(x.X))
	case *ast.AssignStmt:
		for _, r := range x.Rhs {
			// S = append(S, key/value)
			if call, ok := r.(*ast.CallExpr); ok {
				if id, ok := call.Fun.(*ast.Ident); ok && id.Name == "append" {
					if _, isB := m.info.Uses[id].(*types.Builtin); isB {
						if len(x.Lhs) == 1 && len(call.Args) >= 1 {
							if lid, ok := x.Lhs[0].(*ast.Ident); ok {
								if aid, ok := call.Args[0].(*ast.Ident); ok && m.info.Uses[aid] != nil && m.info.Uses[aid] == m.info.Uses[lid] {
									m.slices[m.info.Uses[lid]] = true
									return true
								}
							}
						}
						// X.f = append(X.f, v) into a struct field that the package only ever searches
						// for the one element satisfying a test (order of the slice is irrelevant)
						if len(x.Lhs) == 1 && len(call.Args) >= 1 {
							if lse, ok := x.Lhs[0].(*ast.SelectorExpr); ok {
								if ase, ok := call.Args[0].(*ast.SelectorExpr); ok && types.ExprString(lse) == types.ExprString(ase) {
									if fv, ok := m.info.Uses[lse.Sel].(*types.Var); ok && fv.IsField() {
										if m.searchOnlyField(fv) {
											return true
										}
										// otherwise it must be sorted before its next use, like a local
										m.slices[fv] = true
										return true
									}
								}
							}
						}
						return m.fail("append in an unrecognised shape: %s", types.ExprString(r))
					}
				}
			}
			if !m.pureExpr(r) {
				return false
			}
		}
		if x.Tok == token.DEFINE {
			return true // new locals, per iteration
		}
		for _, l := range x.Lhs {
			switch t := l.(type) {
			case *ast.Ident:
				if t.Name == "_" {
					continue
				}
				// a local of the iteration (declared inside the loop body) does not survive it
				if o := m.info.Uses[t]; o != nil && m.body != nil && m.body.Pos() <= o.Pos() && o.Pos() < m.body.End() {
					continue
				}
				// plain variable assigned inside the loop: order-dependent unless the value is constant
				if len(x.Rhs) == 1 {
					if tv := m.info.Types[x.Rhs[0]]; tv.Value != nil {
						continue
					}
					if id, ok := x.Rhs[0].(*ast.Ident); ok && (id.Name == "true" || id.Name == "false") {
						continue
					}
				}
				return m.fail("variable %s is overwritten per iteration (last writer wins depends on map order)", t.Name)
			case *ast.IndexExpr:
				// M[k] = ...: index must be the range key or derived from the range value; or S[i] = key with counter i
				if _, isMap := m.info.TypeOf(t.X).Underlying().(*types.Map); isMap {
					if m.mentions(t.Index, m.key) || m.mentions(t.Index, m.val) {
						continue
					}
					if tv := m.info.Types[t.Index]; tv.Value != nil {
						// constant key: any-flag style
						continue
					}
					return m.fail("map store %s is not keyed by the range key/value", types.ExprString(l))
				}
				if id, ok := t.Index.(*ast.Ident); ok {
					if o := m.info.Uses[id]; o != nil {
						if bid, ok := t.X.(*ast.Ident); ok {
							m.slices[m.info.Uses[bid]] = true
							m.cnts[o] = true
							continue
						}
					}
				}
				return m.fail("indexed store %s", types.ExprString(l))
			case *ast.SelectorExpr:
				// o.Decl = ... on the range key object (per-key state)
				if m.mentions(t.X, m.key) || m.mentions(t.X, m.val) {
					continue
				}
				return m.fail("store to %s is shared across iterations", types.ExprString(l))
			default:
				return m.fail("store to %s", types.ExprString(l))
			}
		}
		return true
	case *ast.ExprStmt:
		if m.pureExpr(x.X) {
			return true
		}
		return false
	case *ast.BlockStmt:
		return m.stmts(x.List)
	case *ast.EmptyStmt:
		return true
	case *ast.DeclStmt:
		// var x T [= pure]: a local of the iteration
		if gd, ok := x.Decl.(*ast.GenDecl); ok && (gd.Tok == token.VAR || gd.Tok == token.CONST || gd.Tok == token.TYPE) {
			for _, sp := range gd.Specs {
				if vs, ok := sp.(*ast.ValueSpec); ok {
					for _, v := range vs.Values {
						if !m.pureExpr(v) {
							return false
						}
					}
				}
			}
			return true
		}
	}
	return m.fail("%T statement in the loop body", s)
}

// sortedAfter: every slice the loop fills is passed to sort.* as the first use after the loop.
func (m *moCtx) sortedAfter(fd *ast.FuncDecl, rs *ast.RangeStmt) bool {
	for sl := range m.slices {
		if sl == nil {
			return m.fail("slice target not resolvable")
		}
		first := token.NoPos
		var firstNode ast.Node
		var stack []ast.Node
		ast.Inspect(fd.Body, func(n ast.Node) bool {
			if n == nil {
				stack = stack[:len(stack)-1]
				return true
			}
			stack = append(stack, n)
			// a mention inside a function literal is not a use at that point (the comparator bound
			// to a local before the sort call)
			for _, anc := range stack {
				if _, isLit := anc.(*ast.FuncLit); isLit {
					return true
				}
			}
			if id, ok := n.(*ast.Ident); ok && m.info.Uses[id] == sl && id.Pos() > rs.End() {
				if first == token.NoPos || id.Pos() < first {
					first = id.Pos()
					// enclosing call
					firstNode = nil
					for i := len(stack) - 1; i >= 0; i-- {
						if c, ok := stack[i].(*ast.CallExpr); ok {
							firstNode = c
							break
						}
					}
				}
			}
			return true
		})
		if first == token.NoPos {
			continue // never used afterwards
		}
		// handed over, as it is, to a struct field that the package only ever searches for the one
		// element satisfying a test: the order of that slice cannot be observed
		handed := false
		ast.Inspect(fd.Body, func(n ast.Node) bool {
			as, ok := n.(*ast.AssignStmt)
			if !ok || len(as.Lhs) != 1 || len(as.Rhs) != 1 || as.Pos() > first || first > as.End() {
				return true
			}
			if rid, ok := ast.Unparen(as.Rhs[0]).(*ast.Ident); ok && m.info.Uses[rid] == sl {
				if lse, ok := as.Lhs[0].(*ast.SelectorExpr); ok {
					if fv, ok := m.info.Uses[lse.Sel].(*types.Var); ok && fv.IsField() && m.searchOnlyField(fv) {
						handed = true
					}
				}
			}
			return true
		})
		if handed {
			// and not used again after the hand-over
			again := false
			ast.Inspect(fd.Body, func(n ast.Node) bool {
				if id, ok := n.(*ast.Ident); ok && m.info.Uses[id] == sl && id.Pos() > first {
					again = true
				}
				return true
			})
			if !again {
				continue
			}
		}
		call, _ := firstNode.(*ast.CallExpr)
		okSort := false
		if call != nil {
			if fn := calleeFunc(m.info, call); fn != nil && fn.Pkg() != nil && isSortPkg(fn) && len(call.Args) >= 1 {
				if id, ok := call.Args[0].(*ast.Ident); ok && m.info.Uses[id] == sl {
					okSort = true
				}
				if se, ok := call.Args[0].(*ast.SelectorExpr); ok && m.info.Uses[se.Sel] == sl {
					okSort = true
				}
			}
		}
		if !okSort {
			return m.fail("slice %s is filled in map order and not sorted before its next use at %s", sl.Name(), m.e.Prog.Pos(first))
		}
		if why := m.comparatorTotal(fd, call, sl); why != "" {
			return m.fail("slice %s is filled in map order and sorted at %s with a comparator that is not a total order on distinct elements (%s): tied elements keep their map-iteration order", sl.Name(), m.e.Prog.Pos(first), why)
		}
	}
	return true
}

func (e *Env) RMapOrder(filter func(mapRange) bool) {
	n := 0
	for _, mr := range e.mapRanges() {
		if filter != nil && !filter(mr) {
			continue
		}
		n++
		info := mr.pkg.TypesInfo
		m := &moCtx{e: e, info: info, fd: mr.fd, slices: map[types.Object]bool{}, cnts: map[types.Object]bool{}, body: mr.rs.Body}
		if id, ok := mr.rs.Key.(*ast.Ident); ok && id.Name != "_" {
			m.key = info.Defs[id]
		}
		if id, ok := mr.rs.Value.(*ast.Ident); ok && id.Name != "_" {
			m.val = info.Defs[id]
		}
		ok := m.stmts(mr.rs.Body.List) && m.sortedAfter(mr.fd, mr.rs)
		key := "map range " + mr.name + " is order-insensitive"
		if !ok {
			why, frozen := mapOrderFrozen[mr.name]
			if !frozen {
				// the children switch of Walk may live in a helper: same exception as for Walk
				if w := e.Sib.ByName["walk"]; w != nil {
					inWalk := w.Func == mr.fd && w.Frame != nil
					for _, d := range w.Chain {
						if d == mr.fd {
							inWalk = true
						}
					}
					if inWalk {
						why, frozen = mapOrderFrozen[mr.pkg.PkgPath+".Walk "+types.ExprString(mr.rs.X)]
					}
				}
			}
			if !frozen && mr.pkg.PkgPath == load.PkgDst && (e.Prog.File(mr.fd.Pos()) == "resolve.go" || strings.HasSuffix(e.Prog.File(mr.fd.Pos()), "/resolve.go")) {
				// the package builder forked from go/ast (resolve.go), whichever function of that
				// file the loop lives in: ranges over the files of a package and over the objects
				// of a scope have upstream's map-order dependence (R-FORK keeps the code identical)
				if mt, ok := info.TypeOf(mr.rs.X).Underlying().(*types.Map); ok {
					if _, en := namedOf(mt.Elem()); en == "Object" || en == "File" {
						why, frozen = "fork of go/ast.NewPackage (resolve.go): same map-order dependence as upstream; kept identical by R-FORK", true
					}
				}
			}
			if frozen {
				e.Run.OK("R-MAPORDER", key, e.Prog.Pos(mr.rs.Pos()), "frozen exception: "+why)
				continue
			}
		}
		e.Run.Check("R-MAPORDER", key, e.Prog.Pos(mr.rs.Pos()), ok,
			"the loop body does order-dependent work under Go's randomised map iteration: "+m.why+" — repeated calls on equal inputs can give different trees/bytes")
	}
	e.Run.Analysed("map ranges", n)
}

var _ = strings.TrimSpace

// comparatorTotal: "" when the sort call orders distinct elements totally: sort.Strings/Ints, or
// sort.Slice*(S, func(i, j int) bool { return S[i] < S[j] }) or { return F(S[i], S[j]) } with F a
// function of the same package whose last return compares its two parameters directly with < or >.
func (m *moCtx) comparatorTotal(fd *ast.FuncDecl, call *ast.CallExpr, sl types.Object) string {
	fn := calleeFunc(m.info, call)
	switch funcKey(fn) {
	case "sort.Strings", "sort.Ints", "sort.Float64s", "slices.Sort":
		return "" // the natural order of an ordered element type
	case "sort.Slice", "sort.SliceStable":
	case "slices.SortFunc", "slices.SortStableFunc":
		return m.threeWayTotal(fd, call)
	default:
		return "unrecognised sort function " + funcKey(fn)
	}
	if len(call.Args) != 2 {
		return "sort call shape"
	}
	lit, ok := call.Args[1].(*ast.FuncLit)
	if !ok {
		// a local bound once to a function literal
		if cid, isID := ast.Unparen(call.Args[1]).(*ast.Ident); isID {
			if def := singleDefIn(m.info, fd.Body.List, m.info.Uses[cid]); def != nil {
				lit, ok = def.(*ast.FuncLit)
			}
		}
	}
	if !ok {
		return "comparator is not a function literal"
	}
	if len(lit.Body.List) != 1 {
		return m.comparatorLitTotal(fd, lit, sl)
	}
	rs, ok := lit.Body.List[0].(*ast.ReturnStmt)
	if !ok || len(rs.Results) != 1 {
		return "comparator literal does not return a single expression"
	}
	var iObj, jObj types.Object
	var ps []types.Object
	for _, p := range lit.Type.Params.List {
		for _, nm := range p.Names {
			ps = append(ps, m.info.Defs[nm])
		}
	}
	if len(ps) != 2 {
		return "comparator parameters"
	}
	iObj, jObj = ps[0], ps[1]
	elem := func(x ast.Expr, idx types.Object) bool {
		ix, ok := x.(*ast.IndexExpr)
		if !ok {
			return false
		}
		k, ok2 := ix.Index.(*ast.Ident)
		if !ok2 || m.info.Uses[k] != idx {
			return false
		}
		switch b := ix.X.(type) {
		case *ast.Ident:
			return m.info.Uses[b] == sl
		case *ast.SelectorExpr:
			return m.info.Uses[b.Sel] == sl
		}
		return false
	}
	// the files of one package occupy disjoint position ranges of the file set: their Pos() is a
	// key that distinguishes them
	filePos := func(x ast.Expr, idx types.Object) bool {
		call, ok := ast.Unparen(x).(*ast.CallExpr)
		if !ok || len(call.Args) != 0 {
			return false
		}
		se, ok := call.Fun.(*ast.SelectorExpr)
		if !ok || se.Sel.Name != "Pos" || !elem(se.X, idx) {
			return false
		}
		_, tn := namedOf(m.info.TypeOf(se.X))
		return tn == "File"
	}
	direct := func(x ast.Expr, a, b func(ast.Expr) bool) bool {
		be, ok := x.(*ast.BinaryExpr)
		return ok && (be.Op == token.LSS || be.Op == token.GTR) && a(be.X) && b(be.Y)
	}
	isI := func(x ast.Expr) bool { return elem(x, iObj) }
	isJ := func(x ast.Expr) bool { return elem(x, jObj) }
	if direct(rs.Results[0], isI, isJ) || direct(rs.Results[0], isJ, isI) {
		return ""
	}
	isFI := func(x ast.Expr) bool { return filePos(x, iObj) }
	isFJ := func(x ast.Expr) bool { return filePos(x, jObj) }
	if direct(rs.Results[0], isFI, isFJ) || direct(rs.Results[0], isFJ, isFI) {
		return ""
	}
	inner, ok := rs.Results[0].(*ast.CallExpr)
	if !ok || len(inner.Args) != 2 || !isI(inner.Args[0]) || !isJ(inner.Args[1]) {
		return "comparator does not compare the two elements themselves"
	}
	cmp := calleeFunc(m.info, inner)
	if cmp == nil {
		return "comparator callee not resolvable"
	}
	// find the declaration of cmp in the in-scope packages
	for _, pkg := range m.e.Prog.InScopePkgs() {
		for _, d := range load.AllFuncDecls(pkg) {
			if pkg.TypesInfo.Defs[d.Name] != types.Object(cmp) || d.Body == nil {
				continue
			}
			var qs []types.Object
			for _, p := range d.Type.Params.List {
				for _, nm := range p.Names {
					qs = append(qs, pkg.TypesInfo.Defs[nm])
				}
			}
			if len(qs) != 2 || len(d.Body.List) == 0 {
				return "comparator function shape"
			}
			return m.e.comparatorTotal2(pkg, d, qs[0].Name(), qs[1].Name())
		}
	}
	return "comparator function " + cmp.Name() + " not found in the in-scope packages"
}

// isSortPkg: a function of package sort, or one of the sorting functions of package slices.
func isSortPkg(fn *types.Func) bool {
	if fn == nil || fn.Pkg() == nil {
		return false
	}
	switch fn.Pkg().Path() {
	case "sort":
		return true
	case "slices":
		return strings.HasPrefix(fn.Name(), "Sort")
	}
	return false
}

// threeWayTotal: the comparator of slices.SortFunc / SortStableFunc returns 0 for equal elements
// only. Accepted: `return cmp.Compare(a, b)` / `strings.Compare(a, b)` on the two parameters, and
// the three-way form of a total "less" L of the package — L(a, b) gives a negative constant,
// L(b, a) a positive one, anything else 0 — whatever the statements (switch, ifs) that say so.
func (m *moCtx) threeWayTotal(fd *ast.FuncDecl, call *ast.CallExpr) string {
	if len(call.Args) != 2 {
		return "sort call shape"
	}
	lit, ok := ast.Unparen(call.Args[1]).(*ast.FuncLit)
	if !ok {
		return "comparator is not a function literal"
	}
	var ps []types.Object
	for _, p := range lit.Type.Params.List {
		for _, nm := range p.Names {
			ps = append(ps, m.info.Defs[nm])
		}
	}
	if len(ps) != 2 {
		return "comparator parameters"
	}
	isP := func(x ast.Expr, o types.Object) bool {
		id, ok := ast.Unparen(x).(*ast.Ident)
		return ok && m.info.Uses[id] == o
	}
	if len(lit.Body.List) == 1 {
		if rs, ok := lit.Body.List[0].(*ast.ReturnStmt); ok && len(rs.Results) == 1 {
			if c2, ok := ast.Unparen(rs.Results[0]).(*ast.CallExpr); ok && len(c2.Args) == 2 {
				switch funcKey(calleeFunc(m.info, c2)) {
				case "cmp.Compare", "strings.Compare":
					if (isP(c2.Args[0], ps[0]) && isP(c2.Args[1], ps[1])) || (isP(c2.Args[0], ps[1]) && isP(c2.Args[1], ps[0])) {
						return ""
					}
				}
			}
		}
	}
	var pkgPath string
	if ps[0].Pkg() != nil {
		pkgPath = ps[0].Pkg().Path()
	}
	c := schema.CtxFor(m.e.Prog, pkgPath)
	if c == nil {
		return "comparator literal: package context not available"
	}
	rets, ok := returnsOfBody(c, lit.Body.List)
	if !ok || len(rets) == 0 {
		return "path conditions of the comparator literal not computable"
	}
	a, b := ps[0].Name(), ps[1].Name()
	var lessName string
	neg, pos, zero := "", "", ""
	for _, r := range rets {
		if len(r.results) != 1 {
			return "comparator results"
		}
		v := strings.TrimSpace(r.results[0])
		switch {
		case strings.HasPrefix(v, "-"):
			neg = r.cond
		case v == "0":
			zero = r.cond
		default:
			if _, err := strconv.Atoi(v); err != nil {
				return "comparator returns " + v + ", not a constant"
			}
			pos = r.cond
		}
	}
	_ = zero
	// neg must be L(a, b), pos must be !L(a, b) && L(b, a) (or L(b, a))
	re := regexp.MustCompile(`^(\w+)\(` + regexp.QuoteMeta(a) + `, ` + regexp.QuoteMeta(b) + `\)$`)
	negT := strings.TrimSpace(neg)
	for strings.HasPrefix(negT, "(") && strings.HasSuffix(negT, ")") && balanced(negT[1:len(negT)-1]) {
		negT = strings.TrimSpace(negT[1 : len(negT)-1])
	}
	mm := re.FindStringSubmatch(negT)
	if mm == nil {
		return "the negative result is not returned exactly when less(" + a + ", " + b + ") holds: " + neg
	}
	lessName = mm[1]
	want1 := lessName + "(" + b + ", " + a + ")"
	imp := func(x, y string) (bool, bool) { return unsatWith(x, "!("+y+")") }
	okPos, dec := imp("!"+lessName+"("+a+", "+b+") && "+want1, orTrue(pos))
	okPos2, dec2 := imp(orTrue(pos), want1)
	if !dec || !dec2 || !okPos || !okPos2 {
		return "the positive result is not returned exactly when less(" + b + ", " + a + ") holds: " + pos
	}
	// L itself is total
	for _, pkg := range m.e.Prog.InScopePkgs() {
		for _, d := range load.AllFuncDecls(pkg) {
			if d.Name.Name != lessName || d.Recv != nil || d.Body == nil || pkg.PkgPath != pkgPath {
				continue
			}
			var qs []types.Object
			for _, p := range d.Type.Params.List {
				for _, nm := range p.Names {
					qs = append(qs, pkg.TypesInfo.Defs[nm])
				}
			}
			if len(qs) != 2 {
				return "comparator function shape"
			}
			return m.e.comparatorTotal2(pkg, d, qs[0].Name(), qs[1].Name())
		}
	}
	return "comparator function " + lessName + " not found"
}

// comparatorTotal2 decides that less(a, b) || less(b, a) holds for all distinct a, b, from the
// return statements of the comparator: for every pair of returns (r1 taken by the call (a, b), r2
// by the call (b, a)) the formula  cond1 ∧ swap(cond2) ∧ ¬(res1 ∨ swap(res2))  must be
// unsatisfiable, where swap exchanges the two parameters, locals are replaced by their
// definitions, comparisons of booleans are expanded (x != y is x xor y), and the only facts used
// about < are: for the raw parameters exactly one of a < b, b < a holds (distinctness); for
// anything else (transformed keys) at most one. A transformed key (lower-cased, trimmed,
// projected) therefore leaves the formula satisfiable: two distinct elements can tie, and tied
// elements keep the order in which the randomised map iteration delivered them.
func (e *Env) comparatorTotal2(pkg *packages.Package, d *ast.FuncDecl, pa, pb string) string {
	c := schema.CtxFor(e.Prog, pkg.PkgPath)
	rets, ok := returnsOf(c, d)
	if !ok || len(rets) == 0 {
		return "path conditions of " + d.Name.Name + " not computable"
	}
	return comparatorTotalRets(d.Name.Name, rets, pa, pb, nil)
}

// comparatorLitTotal: a comparator literal with several statements, decided like a comparator
// function: its returns (path condition, result) are written over the two elements a = S[i] and
// b = S[j] of the sorted slice S; an index i or j that is left over reads something other than
// the sorted slice at that position — a parallel slice, which sort.Slice does not permute along
// with S, so that after the first swap the comparator compares other elements' keys.
func (m *moCtx) comparatorLitTotal(fd *ast.FuncDecl, lit *ast.FuncLit, sl types.Object) string {
	var pkgPath string
	if sl.Pkg() != nil {
		pkgPath = sl.Pkg().Path()
	}
	c := schema.CtxFor(m.e.Prog, pkgPath)
	if c == nil {
		return "comparator literal: package context not available"
	}
	var ps []string
	for _, p := range lit.Type.Params.List {
		for _, nm := range p.Names {
			ps = append(ps, nm.Name)
		}
	}
	if len(ps) != 2 {
		return "comparator parameters"
	}
	undo := c.InstallReachingIn(lit.Body)
	defer undo()
	var rets []funcReturn
	good := true
	boolTexts := map[string]bool{}
	ast.Inspect(lit.Body, func(n ast.Node) bool {
		switch x := n.(type) {
		case *ast.FuncLit:
			return x == lit
		case *ast.BinaryExpr:
			if x.Op == token.EQL || x.Op == token.NEQ {
				if b, ok := m.info.TypeOf(x.X).Underlying().(*types.Basic); ok && b.Info()&types.IsBoolean != 0 {
					boolTexts[c.ExprStr(x.X)] = true
					boolTexts[c.ExprStr(x.Y)] = true
				}
			}
		case *ast.ReturnStmt:
			cond, ok := pathCond(c, lit.Body.List, x)
			if !ok {
				good = false
			}
			r := funcReturn{cond: cond, pos: x.Pos()}
			for _, res := range x.Results {
				r.results = append(r.results, c.ExprStr(res))
			}
			rets = append(rets, r)
		}
		return true
	})
	if !good || len(rets) == 0 {
		return "path conditions of the comparator literal not computable"
	}
	// a = S[i], b = S[j]
	sname := regexp.QuoteMeta(sl.Name())
	reI := regexp.MustCompile(`(\b\w+\.)*\b` + sname + `\[` + regexp.QuoteMeta(ps[0]) + `\]`)
	reJ := regexp.MustCompile(`(\b\w+\.)*\b` + sname + `\[` + regexp.QuoteMeta(ps[1]) + `\]`)
	left := regexp.MustCompile(`\[(` + regexp.QuoteMeta(ps[0]) + `|` + regexp.QuoteMeta(ps[1]) + `)\]`)
	sub := func(t string) string { return reJ.ReplaceAllString(reI.ReplaceAllString(t, "elemA"), "elemB") }
	for k := range rets {
		rets[k].cond = sub(rets[k].cond)
		for q := range rets[k].results {
			rets[k].results[q] = sub(rets[k].results[q])
		}
		for _, t := range append([]string{rets[k].cond}, rets[k].results...) {
			if mm := left.FindString(t); mm != "" {
				return "the comparator reads position " + mm + " of something other than the sorted slice " + sl.Name() + " (in `" + t + "`): sort.Slice permutes only " + sl.Name() + ", so after the first swap that value belongs to another element and the comparator is no longer an order"
			}
		}
	}
	bt := map[string]bool{}
	for t := range boolTexts {
		bt[sub(t)] = true
	}
	return comparatorTotalRets("the comparator literal", rets, "elemA", "elemB", bt)
}

func comparatorTotalRets(name string, rets []funcReturn, pa, pb string, boolTexts map[string]bool) string {
	d := struct{ Name struct{ Name string } }{}
	d.Name.Name = name
	swapIdent := func(n string) string {
		switch n {
		case pa:
			return pb
		case pb:
			return pa
		}
		return n
	}
	parse := func(s string) ast.Expr {
		if s == "" {
			s = "true"
		}
		x, err := parser.ParseExpr(s)
		if err != nil {
			return nil
		}
		return x
	}
	isBoolish := func(x ast.Expr) bool {
		if boolTexts[types.ExprString(ast.Unparen(x))] {
			return true
		}
		switch v := ast.Unparen(x).(type) {
		case *ast.UnaryExpr:
			return v.Op == token.NOT
		case *ast.CallExpr:
			fn := types.ExprString(v.Fun)
			return strings.HasPrefix(fn, "strings.Contains") || strings.HasPrefix(fn, "strings.Has") || strings.HasPrefix(fn, "strings.EqualFold")
		case *ast.BinaryExpr:
			switch v.Op {
			case token.LAND, token.LOR, token.EQL, token.NEQ, token.LSS, token.GTR, token.LEQ, token.GEQ:
				return true
			}
		case *ast.Ident:
			return v.Name == "true" || v.Name == "false"
		}
		return false
	}
	// normalise: swap (optional), a > b → b < a, boolean ==/!= → xnor/xor
	var norm func(x ast.Expr, swap bool) ast.Expr
	norm = func(x ast.Expr, swap bool) ast.Expr {
		out := astutil.Apply(x, nil, func(cur *astutil.Cursor) bool {
			switch v := cur.Node().(type) {
			case *ast.Ident:
				if swap {
					cur.Replace(&ast.Ident{Name: swapIdent(v.Name)})
				}
			case *ast.BinaryExpr:
				switch v.Op {
				case token.GTR:
					cur.Replace(&ast.BinaryExpr{X: v.Y, Op: token.LSS, Y: v.X})
				case token.NEQ, token.EQL:
					if isBoolish(v.X) && isBoolish(v.Y) {
						xor := &ast.BinaryExpr{
							X:  &ast.ParenExpr{X: &ast.BinaryExpr{X: &ast.ParenExpr{X: v.X}, Op: token.LAND, Y: &ast.UnaryExpr{Op: token.NOT, X: &ast.ParenExpr{X: v.Y}}}},
							Op: token.LOR,
							Y:  &ast.ParenExpr{X: &ast.BinaryExpr{X: &ast.UnaryExpr{Op: token.NOT, X: &ast.ParenExpr{X: v.X}}, Op: token.LAND, Y: &ast.ParenExpr{X: v.Y}}},
						}
						if v.Op == token.NEQ {
							cur.Replace(&ast.ParenExpr{X: xor})
						} else {
							cur.Replace(&ast.UnaryExpr{Op: token.NOT, X: &ast.ParenExpr{X: xor}})
						}
					}
				}
			}
			return true
		})
		return out.(ast.Expr)
	}
	str := func(x ast.Expr) string { return types.ExprString(canonParens(x)) }
	lt := pa + " < " + pb
	gt := pb + " < " + pa
	theory := "((" + lt + ") || (" + gt + ")) && !((" + lt + ") && (" + gt + "))"
	for _, r1 := range rets {
		for _, r2 := range rets {
			if len(r1.results) != 1 || len(r2.results) != 1 {
				return "comparator returns more than one value"
			}
			c1, v1 := parse(r1.cond), parse(r1.results[0])
			c2, v2 := parse(r2.cond), parse(r2.results[0])
			if c1 == nil || v1 == nil || c2 == nil || v2 == nil {
				return "a return of " + d.Name.Name + " is not a propositional expression over its parameters"
			}
			f := "(" + str(norm(c1, false)) + ") && (" + str(norm(c2, true)) + ") && !((" + str(norm(v1, false)) + ") || (" + str(norm(v2, true)) + "))"
			// collect "x < y" atoms over transformed keys: at most one of x<y, y<x
			extra := ""
			for _, m := range regexp.MustCompile(`strings\.\w+\(`+pa+`\) < strings\.\w+\(`+pb+`\)`).FindAllString(f, -1) {
				parts := strings.SplitN(m, " < ", 2)
				extra += " && !((" + parts[0] + " < " + parts[1] + ") && (" + parts[1] + " < " + parts[0] + "))"
			}
			unsat, dec := unsatWith(f, theory+extra)
			if !dec {
				return "totality of " + d.Name.Name + " not decidable propositionally: " + f
			}
			if !unsat {
				return fmt.Sprintf("%s(a, b) returning `%s` (under `%s`) and %s(b, a) returning `%s` can both be false for distinct a, b: the order of such a pair is left to the sort's input order", d.Name.Name, r1.results[0], r1.cond, d.Name.Name, r2.results[0])
			}
		}
	}
	return ""
}

// searchOnlyField: apart from appends to itself, the slice field fv is used in the package only as
// the operand of range loops whose body is a search: `if <test on the element> { return <element> }`
// (optionally preceded by `if … { continue }` filters). The order of such a slice cannot be
// observed as long as at most one element passes the test, which the caller's comment states.
func (m *moCtx) searchOnlyField(fv *types.Var) bool {
	var pkg *packages.Package
	for _, p := range m.e.Prog.InScopePkgs() {
		if p.Types == fv.Pkg() {
			pkg = p
		}
	}
	if pkg == nil {
		return false
	}
	info := pkg.TypesInfo
	good, uses := true, 0
	for _, file := range pkg.Syntax {
		var stack []ast.Node
		ast.Inspect(file, func(n ast.Node) bool {
			if n == nil {
				stack = stack[:len(stack)-1]
				return true
			}
			stack = append(stack, n)
			se, ok := n.(*ast.SelectorExpr)
			if !ok || info.Uses[se.Sel] != types.Object(fv) {
				return true
			}
			parent := stack[len(stack)-2]
			switch p := parent.(type) {
			case *ast.AssignStmt: // lhs of X.f = append(X.f, …)
				return true
			case *ast.CallExpr: // first argument of that append
				if id, ok := p.Fun.(*ast.Ident); ok && id.Name == "append" && len(p.Args) > 0 && p.Args[0] == ast.Expr(se) {
					return true
				}
			case *ast.RangeStmt:
				if p.X == ast.Expr(se) && p.Key != nil && types.ExprString(p.Key) == "_" {
					vid, _ := p.Value.(*ast.Ident)
					okBody := vid != nil
					for _, st := range p.Body.List {
						is, isIf := st.(*ast.IfStmt)
						if !isIf || is.Else != nil || len(is.Body.List) != 1 {
							okBody = false
							break
						}
						switch b := is.Body.List[0].(type) {
						case *ast.BranchStmt:
							if b.Tok != token.CONTINUE {
								okBody = false
							}
						case *ast.ReturnStmt:
							if len(b.Results) != 1 {
								okBody = false
							} else if id, ok := b.Results[0].(*ast.Ident); !ok || info.Uses[id] != info.Defs[vid] {
								okBody = false
							}
						default:
							okBody = false
						}
					}
					if okBody {
						uses++
						return true
					}
				}
			}
			good = false
			return true
		})
	}
	return good && uses > 0
}

// memoisedCallee: the call goes to a closure or same-package function that is memoised on its
// (single) argument: its body returns the entry of a map keyed by the parameter when there is one
// (`if x, ok := memo[p]; ok { return x … }`) and stores `memo[p] = …` otherwise. Whatever order
// such calls are made in, each argument is converted once and every call returns that result.
func (m *moCtx) memoisedCallee(call *ast.CallExpr) bool {
	if len(call.Args) != 1 {
		return false
	}
	var body *ast.BlockStmt
	var params *ast.FieldList
	switch f := call.Fun.(type) {
	case *ast.Ident:
		if v, ok := m.info.Uses[f].(*types.Var); ok && m.fd != nil && m.fd.Body != nil {
			// local closure: var convert func(...); convert = func(...) {...}  or  convert := func
			ast.Inspect(m.fd.Body, func(n ast.Node) bool {
				if as, ok := n.(*ast.AssignStmt); ok && len(as.Lhs) == len(as.Rhs) {
					for i, l := range as.Lhs {
						if lid, ok := l.(*ast.Ident); ok && (m.info.Defs[lid] == types.Object(v) || m.info.Uses[lid] == types.Object(v)) {
							if lit, ok := as.Rhs[i].(*ast.FuncLit); ok {
								body, params = lit.Body, lit.Type.Params
							}
						}
					}
				}
				return true
			})
		}
	}
	if body == nil {
		fn := calleeFunc(m.info, call)
		if fn == nil {
			return false
		}
		for _, pkg := range m.e.Prog.InScopePkgs() {
			if pkg.Types != fn.Pkg() {
				continue
			}
			for _, d := range load.AllFuncDecls(pkg) {
				if pkg.TypesInfo.Defs[d.Name] == types.Object(fn) && d.Body != nil {
					body, params = d.Body, d.Type.Params
				}
			}
		}
	}
	if body == nil || params == nil || len(params.List) != 1 || len(params.List[0].Names) != 1 {
		return false
	}
	pname := params.List[0].Names[0].Name
	lookup, store := false, false
	ast.Inspect(body, func(n ast.Node) bool {
		switch x := n.(type) {
		case *ast.IfStmt:
			if as, ok := x.Init.(*ast.AssignStmt); ok && len(as.Lhs) == 2 && len(as.Rhs) == 1 {
				if ix, ok := as.Rhs[0].(*ast.IndexExpr); ok && types.ExprString(ix.Index) == pname {
					if okID, ok := as.Lhs[1].(*ast.Ident); ok && types.ExprString(x.Cond) == okID.Name && len(x.Body.List) > 0 {
						if _, isRet := x.Body.List[len(x.Body.List)-1].(*ast.ReturnStmt); isRet {
							lookup = true
						}
					}
				}
			}
		case *ast.AssignStmt:
			for _, l := range x.Lhs {
				if ix, ok := l.(*ast.IndexExpr); ok && types.ExprString(ix.Index) == pname {
					store = true
				}
			}
		}
		return true
	})
	return lookup && store
}
