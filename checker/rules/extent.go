package rules

import (
	"fmt"
	"go/ast"
	"go/token"
	"go/types"
	"sort"
	"strings"

	"dstverif/load"
)

// RFileExtent (R-ASTORDER): what is stored in ast.File.FileStart / FileEnd is the extent of the
// file that was registered in the file set — its base, and its base plus its size — as go/parser
// stores it. Every position the restorer hands out lies in [base, base+size]; an extent computed
// without the base is right only for the first file of a fresh file set. The value of each store
// is resolved through locals and through the parameters of helpers (arguments at every call
// site) and flattened into a sum of terms: base (token.File.Base, FileRestorer.base), size
// (token.File.Size, FileRestorer.fileSize), token.File.Pos(x) = base + x, integer constants.
func (e *Env) RFileExtent() {
	pkg := e.Prog.Pkg(load.PkgDecorator)
	info := pkg.TypesInfo
	decls := load.AllFuncDecls(pkg)
	declOf := func(fn *types.Func) *ast.FuncDecl {
		for _, d := range decls {
			if info.Defs[d.Name] == types.Object(fn) {
				return d
			}
		}
		return nil
	}
	// call sites by callee
	calls := map[*types.Func][]*ast.CallExpr{}
	for _, d := range decls {
		if d.Body == nil {
			continue
		}
		ast.Inspect(d.Body, func(n ast.Node) bool {
			if call, ok := n.(*ast.CallExpr); ok {
				if fn := calleeFunc(info, call); fn != nil && fn.Pkg() == pkg.Types {
					calls[fn] = append(calls[fn], call)
				}
			}
			return true
		})
	}
	isTokenFile := func(t types.Type) bool {
		p, n := namedOf(t)
		return p == "go/token" && n == "File"
	}
	// terms of x: every alternative (one per call site of a helper) is a sorted list of term kinds
	var terms func(x ast.Expr, fd *ast.FuncDecl, depth int) [][]string
	cross := func(a, b [][]string) [][]string {
		var out [][]string
		for _, p := range a {
			for _, q := range b {
				out = append(out, append(append([]string{}, p...), q...))
			}
		}
		return out
	}
	terms = func(x ast.Expr, fd *ast.FuncDecl, depth int) [][]string {
		x = ast.Unparen(x)
		unknown := [][]string{{"?" + types.ExprString(x)}}
		if depth > 6 {
			return unknown
		}
		if tv, ok := info.Types[x]; ok && tv.Value != nil {
			if tv.Value.String() == "0" {
				return [][]string{{}}
			}
			return [][]string{{"const " + tv.Value.String()}}
		}
		switch v := x.(type) {
		case *ast.BinaryExpr:
			if v.Op == token.ADD {
				return cross(terms(v.X, fd, depth+1), terms(v.Y, fd, depth+1))
			}
		case *ast.CallExpr:
			if tv, ok := info.Types[v.Fun]; ok && tv.IsType() && len(v.Args) == 1 {
				return terms(v.Args[0], fd, depth+1) // conversion
			}
			if se, ok := v.Fun.(*ast.SelectorExpr); ok {
				if isTokenFile(info.TypeOf(se.X)) {
					switch se.Sel.Name {
					case "Base":
						return [][]string{{"base"}}
					case "Size":
						return [][]string{{"size"}}
					case "Pos":
						if len(v.Args) == 1 {
							return cross([][]string{{"base"}}, terms(v.Args[0], fd, depth+1))
						}
					}
				}
				if _, n := namedOf(info.TypeOf(se.X)); n == "FileRestorer" && se.Sel.Name == "fileSize" {
					return [][]string{{"size"}}
				}
			}
		case *ast.SelectorExpr:
			if e.isRestorerField(info, v, "base") {
				return [][]string{{"base"}}
			}
		case *ast.Ident:
			o := info.Uses[v]
			vr, ok := o.(*types.Var)
			if !ok || fd == nil {
				return unknown
			}
			// a parameter: the arguments at every call site
			if fd.Type.Params != nil {
				idx, k := -1, 0
				for _, f := range fd.Type.Params.List {
					for _, nm := range f.Names {
						if info.Defs[nm] == o {
							idx = k
						}
						k++
					}
				}
				if idx >= 0 {
					fn, _ := info.Defs[fd.Name].(*types.Func)
					var out [][]string
					for _, call := range calls[fn] {
						if idx < len(call.Args) {
							var caller *ast.FuncDecl
							for _, d := range decls {
								if d.Body != nil && d.Body.Pos() <= call.Pos() && call.End() <= d.Body.End() {
									caller = d
								}
							}
							out = append(out, terms(call.Args[idx], caller, depth+1)...)
						}
					}
					if len(out) == 0 {
						return unknown
					}
					return out
				}
			}
			// a local with a single definition
			var defs []ast.Expr
			ast.Inspect(fd.Body, func(n ast.Node) bool {
				switch s := n.(type) {
				case *ast.AssignStmt:
					for i, l := range s.Lhs {
						if id, ok := l.(*ast.Ident); ok && (info.Defs[id] == o || info.Uses[id] == o) {
							if len(s.Lhs) == len(s.Rhs) && (s.Tok == token.DEFINE || s.Tok == token.ASSIGN) {
								defs = append(defs, s.Rhs[i])
							} else {
								defs = append(defs, nil)
							}
						}
					}
				case *ast.ValueSpec:
					for i, nm := range s.Names {
						if info.Defs[nm] == o && i < len(s.Values) {
							defs = append(defs, s.Values[i])
						}
					}
				case *ast.IncDecStmt:
					if id, ok := s.X.(*ast.Ident); ok && info.Uses[id] == o {
						defs = append(defs, nil)
					}
				}
				return true
			})
			_ = vr
			if len(defs) == 1 && defs[0] != nil {
				return terms(defs[0], fd, depth+1)
			}
		}
		return unknown
	}
	want := map[string]string{"FileStart": "base", "FileEnd": "base+size"}
	n := 0
	for _, d := range decls {
		if d.Body == nil {
			continue
		}
		d := d
		ast.Inspect(d.Body, func(nd ast.Node) bool {
			as, ok := nd.(*ast.AssignStmt)
			if !ok || len(as.Lhs) != len(as.Rhs) {
				return true
			}
			for i, l := range as.Lhs {
				se, ok := ast.Unparen(l).(*ast.SelectorExpr)
				if !ok || want[se.Sel.Name] == "" {
					continue
				}
				if p, tn := namedOf(info.TypeOf(se.X)); p != "go/ast" || tn != "File" {
					continue
				}
				n++
				construct := "ast.File." + se.Sel.Name + " is the " + map[string]string{"FileStart": "base", "FileEnd": "base plus the size"}[se.Sel.Name] + " of the file registered in the file set"
				alts := terms(as.Rhs[i], d, 0)
				var got []string
				ok2, undecided := true, false
				for _, a := range alts {
					sort.Strings(a)
					s := strings.Join(a, "+")
					got = append(got, s)
					if strings.Contains(s, "?") {
						undecided = true
					} else if s != want[se.Sel.Name] {
						ok2 = false
					}
				}
				_ = declOf
				pos := e.Prog.Pos(as.Pos())
				switch {
				case !ok2:
					e.Run.Violation("R-ASTORDER", construct, pos, fmt.Sprintf("the stored value is %v (want %s): every position of the restored file lies in [base, base+size] of its token.File; an extent without the base is right only for the first file of a fresh file set, for later files the nodes lie outside their own file's extent", got, want[se.Sel.Name]))
				case undecided:
					e.Run.Undecided("R-ASTORDER", construct, pos, fmt.Sprintf("the stored value %s could not be resolved into base and size terms: %v", types.ExprString(as.Rhs[i]), got))
				default:
					e.Run.OK("R-ASTORDER", construct, pos, fmt.Sprintf("value resolves to %v", got))
				}
			}
			return true
		})
	}
	e.Run.Floor("R-ASTORDER", "file extent stores", n, 2)
}
