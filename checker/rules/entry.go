package rules

import (
	"fmt"
	"go/ast"
	"go/constant"
	"go/token"
	"go/types"
	"sort"
	"strings"

	"dstverif/load"
	"dstverif/schema"
)

// R-ENTRY: parse entry points force ParseComments; print entry points print with the FileSet of
// the restorer that produced the file; the helper chains reach the converters.
func (e *Env) REntry() {
	n := 0
	for _, pkg := range e.Prog.InScopePkgs() {
		info := pkg.TypesInfo
		for _, fd := range load.AllFuncDecls(pkg) {
			if fd.Body == nil {
				continue
			}
			ast.Inspect(fd.Body, func(nd ast.Node) bool {
				call, ok := nd.(*ast.CallExpr)
				if !ok {
					return true
				}
				fn := calleeFunc(info, call)
				switch funcKey(fn) {
				case "go/parser.ParseFile", "go/parser.ParseDir":
					n++
					mode := call.Args[len(call.Args)-1]
					e.Run.Check("R-ENTRY", fmt.Sprintf("%s in %s forces ParseComments", fn.Name(), load.FuncName(fd)), e.Prog.Pos(call.Pos()), modeHasParseCommentsAt(info, fd, call, mode),
						"mode operand `"+types.ExprString(mode)+"` must be `… | parser.ParseComments` (comments would be dropped at the door)")
				case "go/format.Node":
					n++
					ok := e.formatNodeFset(pkg.TypesInfo, fd, call)
					e.Run.Check("R-ENTRY", fmt.Sprintf("format.Node in %s prints with the restorer's own FileSet", load.FuncName(fd)), e.Prog.Pos(call.Pos()), ok,
						"the file argument must come from X.RestoreFile(...) and the FileSet argument must be X.Fset (or the set returned by the same decorator.RestoreFile call): synthetic positions are meaningless in any other set")
				}
				return true
			})
		}
	}
	e.Run.Analysed("parser/format call sites", n)
	e.Run.Floor("R-ENTRY", "parser/format call sites", n, 4)
	// helper chains
	pkg := e.Prog.Pkg(load.PkgDecorator)
	c := e.Sib.Ctx[load.PkgDecorator]
	// reach: same-package functions reachable from fd through static calls (depth-bounded)
	decl := map[*types.Func]*ast.FuncDecl{}
	for _, d := range load.AllFuncDecls(pkg) {
		if fn, ok := pkg.TypesInfo.Defs[d.Name].(*types.Func); ok {
			decl[fn] = d
		}
	}
	label := func(fn *types.Func) string {
		if sig, ok := fn.Type().(*types.Signature); ok && sig.Recv() != nil {
			_, n := namedOf(sig.Recv().Type())
			return n + "." + load.CanonName(fn)
		}
		return load.CanonName(fn)
	}
	reach := func(fd *ast.FuncDecl) map[string]bool {
		seen := map[*types.Func]bool{}
		out := map[string]bool{}
		var visit func(d *ast.FuncDecl, depth int)
		visit = func(d *ast.FuncDecl, depth int) {
			if d == nil || d.Body == nil || depth > 4 {
				return
			}
			ast.Inspect(d.Body, func(nd ast.Node) bool {
				if call, ok := nd.(*ast.CallExpr); ok {
					if fn := c.Callee(call); fn != nil && fn.Pkg() != nil && fn.Pkg().Path() == load.PkgDecorator {
						fn = fn.Origin()
						out[label(fn)] = true
						if !seen[fn] {
							seen[fn] = true
							visit(decl[fn], depth+1)
						}
					}
				}
				return true
			})
		}
		visit(fd, 0)
		return out
	}
	chain := func(recv, name string, wantCallee ...string) {
		fd := load.FuncDecl(pkg, recv, name)
		lbl := name
		if recv != "" {
			lbl = recv + "." + name
		}
		if fd == nil || fd.Body == nil {
			e.Run.Violation("R-ENTRY", "entry point "+lbl+" exists", "", "missing")
			return
		}
		got := reach(fd)
		ok := true
		for _, w := range wantCallee {
			if !got[w] {
				ok = false
			}
		}
		e.Run.Check("R-ENTRY", "entry point "+lbl+" reaches "+strings.Join(wantCallee, ", "), e.Prog.Pos(fd.Pos()), ok, fmt.Sprintf("reaches, within the package: %v", sortedKeys(got)))
	}
	// every decorate entry point ends in Decorator.DecorateNode, which runs the whole pipeline;
	// every print entry point ends in FileRestorer.RestoreFile, which runs the whole restore
	for _, ep := range [][2]string{{"", "Parse"}, {"", "ParseFile"}, {"", "ParseDir"}, {"", "Decorate"}, {"", "DecorateFile"},
		{"Decorator", "Parse"}, {"Decorator", "ParseFile"}, {"Decorator", "ParseDir"}, {"Decorator", "DecorateFile"}} {
		chain(ep[0], ep[1], "Decorator.DecorateNode")
	}
	chain("Decorator", "DecorateNode", "Decorator.newFileDecorator", "fileDecorator.fragment", "fileDecorator.link", "fileDecorator.decorateNode")
	for _, ep := range [][2]string{{"", "Print"}, {"", "Fprint"}, {"", "RestoreFile"}, {"Restorer", "Print"}, {"Restorer", "Fprint"}, {"Restorer", "RestoreFile"},
		{"FileRestorer", "Print"}, {"FileRestorer", "Fprint"}} {
		chain(ep[0], ep[1], "FileRestorer.RestoreFile")
	}
	chain("FileRestorer", "RestoreFile", "FileRestorer.updateImports", "FileRestorer.restoreNode", "FileRestorer.fileSize")
}

// modeHasParseCommentsAt: the mode operand has the ParseComments bit — written at the call, or
// held in a variable whose last assignment among the function's top-level statements before the
// call sets it (x |= …ParseComments, x = x | …, x := … | …) with no nested assignment since.
func modeHasParseCommentsAt(info *types.Info, fd *ast.FuncDecl, call *ast.CallExpr, x ast.Expr) bool {
	id, ok := ast.Unparen(x).(*ast.Ident)
	if !ok {
		return modeHasParseComments(info, x)
	}
	v, ok := info.Uses[id].(*types.Var)
	if !ok {
		return modeHasParseComments(info, x)
	}
	has := false
	var hasExpr func(e ast.Expr) bool
	hasExpr = func(e ast.Expr) bool {
		switch t := ast.Unparen(e).(type) {
		case *ast.Ident:
			if info.Uses[t] == types.Object(v) {
				return has
			}
		case *ast.BinaryExpr:
			if t.Op == token.OR {
				return hasExpr(t.X) || hasExpr(t.Y)
			}
			return false
		}
		return modeHasParseComments(info, e)
	}
	for _, st := range fd.Body.List {
		if st.Pos() <= call.Pos() && call.End() <= st.End() {
			// the statement of the call itself: `f, err := parser.ParseFile(..., x)`
			break
		}
		if as, ok := st.(*ast.AssignStmt); ok && len(as.Lhs) == 1 && len(as.Rhs) == 1 {
			if lid, ok := as.Lhs[0].(*ast.Ident); ok && (info.Uses[lid] == types.Object(v) || info.Defs[lid] == types.Object(v)) {
				switch as.Tok {
				case token.OR_ASSIGN:
					has = has || hasExpr(as.Rhs[0])
				case token.ASSIGN, token.DEFINE:
					has = hasExpr(as.Rhs[0])
				default:
					has = false
				}
				continue
			}
		}
		// any other write to the variable: unknown
		ast.Inspect(st, func(n ast.Node) bool {
			switch t := n.(type) {
			case *ast.AssignStmt:
				for _, l := range t.Lhs {
					if lid, ok := l.(*ast.Ident); ok && (info.Uses[lid] == types.Object(v) || info.Defs[lid] == types.Object(v)) {
						has = false
					}
				}
			case *ast.UnaryExpr:
				if aid, ok := t.X.(*ast.Ident); ok && t.Op == token.AND && info.Uses[aid] == types.Object(v) {
					has = false
				}
			}
			return true
		})
	}
	return has
}

func modeHasParseComments(info *types.Info, x ast.Expr) bool {
	switch v := x.(type) {
	case *ast.ParenExpr:
		return modeHasParseComments(info, v.X)
	case *ast.BinaryExpr:
		if v.Op == token.OR {
			return modeHasParseComments(info, v.X) || modeHasParseComments(info, v.Y)
		}
		return false
	case *ast.SelectorExpr:
		if cst, ok := info.Uses[v.Sel].(*types.Const); ok && cst.Pkg() != nil && cst.Pkg().Path() == "go/parser" && cst.Name() == "ParseComments" {
			return true
		}
	}
	if tv, ok := info.Types[x]; ok && tv.Value != nil && tv.Value.Kind() == constant.Int {
		v, _ := constant.Int64Val(tv.Value)
		return v&4 != 0 // parser.ParseComments == 1<<2
	}
	return false
}

// formatNodeFset: format.Node(w, FS, F) with F defined from R.RestoreFile(...) and FS == R.Fset, or
// (FS, F, err) := RestoreFile(...).
func (e *Env) formatNodeFset(info *types.Info, fd *ast.FuncDecl, call *ast.CallExpr) bool {
	if len(call.Args) != 3 {
		return false
	}
	fid, ok := call.Args[2].(*ast.Ident)
	if !ok {
		return false
	}
	fObj := info.Uses[fid]
	good := false
	ast.Inspect(fd.Body, func(n ast.Node) bool {
		as, ok := n.(*ast.AssignStmt)
		if !ok || len(as.Rhs) != 1 {
			return true
		}
		rc, ok := as.Rhs[0].(*ast.CallExpr)
		if !ok {
			return true
		}
		fn := calleeFunc(info, rc)
		if fn == nil || fn.Name() != "RestoreFile" || fn.Pkg() == nil || fn.Pkg().Path() != load.PkgDecorator {
			return true
		}
		switch len(as.Lhs) {
		case 2: // af, err := X.RestoreFile(f)
			if id, ok := as.Lhs[0].(*ast.Ident); ok && info.Defs[id] == fObj {
				if se, ok := rc.Fun.(*ast.SelectorExpr); ok {
					want := types.ExprString(se.X) + ".Fset"
					good = types.ExprString(call.Args[1]) == want
				}
			}
		case 3: // fset, af, err := RestoreFile(f)
			id0, ok0 := as.Lhs[0].(*ast.Ident)
			id1, ok1 := as.Lhs[1].(*ast.Ident)
			a1, ok2 := call.Args[1].(*ast.Ident)
			if ok0 && ok1 && ok2 && info.Defs[id1] == fObj && info.Uses[a1] == info.Defs[id0] {
				good = true
			}
		}
		return true
	})
	return good
}

// R-FILESCOPE: in fragment()'s per-file pass, line numbers that go into the per-file `avoid` set
// come from the file being processed: a loop over receiver state that aggregates several files
// (f.fragments) must skip fragments whose token.File is not the processed file's.
func (e *Env) RFileScope() {
	pkg := e.Prog.Pkg(load.PkgDecorator)
	info := pkg.TypesInfo
	c := e.Sib.Ctx[load.PkgDecorator]
	fd := load.FuncDecl(pkg, "fileDecorator", "fragment")
	if fd == nil || fd.Body == nil {
		e.Run.Violation("R-FILESCOPE", "fragment exists", "", "function missing")
		return
	}
	lit := e.perFilePass(pkg, fd)
	if lit == nil || len(lit.Type.Params.List) != 1 {
		e.Run.Undecided("R-FILESCOPE", "processFile closure", e.Prog.Pos(fd.Pos()), "no function of one *ast.File parameter that fragment() calls for a file and for each file of a package")
		return
	}
	astf := info.Defs[lit.Type.Params.List[0].Names[0]]
	// locals derived from astf: tokenf := f.Fset.File(astf.Pos())
	derived := map[types.Object]bool{astf: true}
	ast.Inspect(lit.Body, func(n ast.Node) bool {
		as, ok := n.(*ast.AssignStmt)
		if !ok || as.Tok != token.DEFINE || len(as.Lhs) != 1 {
			return true
		}
		uses := false
		ast.Inspect(as.Rhs[0], func(m ast.Node) bool {
			if id, ok := m.(*ast.Ident); ok && derived[info.Uses[id]] {
				uses = true
			}
			return true
		})
		if uses {
			derived[info.Defs[as.Lhs[0].(*ast.Ident)]] = true
		}
		return true
	})
	// local closures that mark lines: `mark := func(start, end token.Pos) { ... avoid[line] = true ... }`
	markers := map[types.Object]bool{}
	var markerLits []*ast.FuncLit
	ast.Inspect(lit.Body, func(nd ast.Node) bool {
		as, ok := nd.(*ast.AssignStmt)
		if !ok || as.Tok != token.DEFINE || len(as.Lhs) != 1 || len(as.Rhs) != 1 {
			return true
		}
		fl, ok := as.Rhs[0].(*ast.FuncLit)
		if !ok {
			return true
		}
		marks := false
		ast.Inspect(fl.Body, func(m ast.Node) bool {
			if a2, ok := m.(*ast.AssignStmt); ok && len(a2.Lhs) == 1 && strings.HasPrefix(c.ExprStr(a2.Lhs[0]), "avoid[") {
				marks = true
			}
			return true
		})
		if marks {
			markers[info.Defs[as.Lhs[0].(*ast.Ident)]] = true
			markerLits = append(markerLits, fl)
		}
		return true
	})
	inMarker := func(p token.Pos) bool {
		for _, fl := range markerLits {
			if fl.Pos() <= p && p < fl.End() {
				return true
			}
		}
		return false
	}
	n := 0
	ast.Inspect(lit.Body, func(nd ast.Node) bool {
		rs, ok := nd.(*ast.RangeStmt)
		if !ok {
			return true
		}
		// does the body store into avoid[...] — directly or through a local closure that does?
		stores := false
		ast.Inspect(rs.Body, func(m ast.Node) bool {
			if as, ok := m.(*ast.AssignStmt); ok && len(as.Lhs) == 1 && strings.HasPrefix(c.ExprStr(as.Lhs[0]), "avoid[") {
				stores = true
			}
			if call, ok := m.(*ast.CallExpr); ok {
				if id, ok := call.Fun.(*ast.Ident); ok && markers[info.Uses[id]] {
					stores = true
				}
				// … or through a function of the package that is handed the set
				if e.markingFuncOf(pkg, call) != nil {
					stores = true
				}
			}
			return true
		})
		// a loop inside a marking closure itself is not a loop over fragments
		for obj := range markers {
			_ = obj
		}
		if inMarker(rs.Pos()) {
			return true
		}
		if !stores {
			return true
		}
		n++
		// source of the loop: rooted in astf (its comments) or receiver state
		rooted := false
		ast.Inspect(rs.X, func(m ast.Node) bool {
			if id, ok := m.(*ast.Ident); ok {
				o := info.Uses[id]
				if derived[o] {
					rooted = true
				}
				// loop variable of an enclosing range over something rooted in astf
				if o != nil && !derived[o] {
					ast.Inspect(lit.Body, func(q ast.Node) bool {
						if outer, ok := q.(*ast.RangeStmt); ok && outer != rs {
							if vid, ok := outer.Value.(*ast.Ident); ok && info.Defs[vid] == o {
								ast.Inspect(outer.X, func(z ast.Node) bool {
									if zid, ok := z.(*ast.Ident); ok && derived[info.Uses[zid]] {
										rooted = true
									}
									return true
								})
							}
						}
						return true
					})
				}
			}
			return true
		})
		key := "processFile: lines marked from `range " + c.ExprStr(rs.X) + "` belong to the processed file"
		if rooted {
			e.Run.OK("R-FILESCOPE", key, e.Prog.Pos(rs.Pos()), "positions come from the *ast.File being processed")
			return true
		}
		// must start with a same-file guard: if <mentions loop var and a value derived from astf> { continue }
		guard := false
		if len(rs.Body.List) > 0 {
			if is, ok := rs.Body.List[0].(*ast.IfStmt); ok && len(is.Body.List) >= 1 {
				if bs, ok := is.Body.List[len(is.Body.List)-1].(*ast.BranchStmt); ok && bs.Tok == token.CONTINUE {
					usesLoopVar, usesFile, usesFset := false, false, false
					var vObj types.Object
					if vid, ok := rs.Value.(*ast.Ident); ok {
						vObj = info.Defs[vid]
					}
					ast.Inspect(is.Cond, func(m ast.Node) bool {
						if id, ok := m.(*ast.Ident); ok {
							if info.Uses[id] == vObj && vObj != nil {
								usesLoopVar = true
							}
							if derived[info.Uses[id]] {
								usesFile = true
							}
						}
						if call, ok := m.(*ast.CallExpr); ok {
							if fn := calleeFunc(info, call); fn != nil && funcKey(fn) == "(*go/token.FileSet).File" {
								usesFset = true
							}
						}
						return true
					})
					if be, ok := is.Cond.(*ast.BinaryExpr); ok && be.Op == token.NEQ {
						guard = usesLoopVar && usesFile && usesFset
					}
				}
			}
		}
		e.Run.Check("R-FILESCOPE", key, e.Prog.Pos(rs.Pos()), guard,
			"the loop ranges over state that aggregates all files of a package; without a leading `if Fset.File(<fragment position>) != <file of astf> { continue }` line numbers of one file suppress line breaks of another (ParseDir)")
		return true
	})
	e.Run.Floor("R-FILESCOPE", "line-marking loops in processFile", n, 1)
}

// R-CLAUSESYM: wherever the attachment code distinguishes clause kinds, CaseClause and CommClause
// are treated alike: a condition that mentions the one must be invariant under swapping the two
// (gofmt lays both kinds of clause out identically).
func (e *Env) RClauseSym() {
	pkg := e.Prog.Pkg(load.PkgDecorator)
	info := pkg.TypesInfo
	c := e.Sib.Ctx[load.PkgDecorator]
	n := 0
	for _, fd := range load.AllFuncDecls(pkg) {
		if fd.Body == nil || isRestorePath(fd) {
			continue
		}
		// booleans defined by `_, x := E.(*ast.CaseClause)` / CommClause
		kind := map[types.Object]string{}
		ast.Inspect(fd.Body, func(nd ast.Node) bool {
			as, ok := nd.(*ast.AssignStmt)
			if !ok || as.Tok != token.DEFINE || len(as.Lhs) != 2 || len(as.Rhs) != 1 {
				return true
			}
			ta, ok := as.Rhs[0].(*ast.TypeAssertExpr)
			if !ok || ta.Type == nil {
				return true
			}
			_, tn := schema.NamedTypeName(info.TypeOf(ta.Type))
			if tn == "CaseClause" || tn == "CommClause" {
				if id, ok := as.Lhs[1].(*ast.Ident); ok {
					kind[info.Defs[id]] = tn
				}
			}
			return true
		})
		if len(kind) == 0 {
			continue
		}
		ast.Inspect(fd.Body, func(nd ast.Node) bool {
			var cond ast.Expr
			switch s := nd.(type) {
			case *ast.IfStmt:
				cond = s.Cond
			default:
				return true
			}
			var atoms []ast.Expr
			var caseObj, commObj types.Object
			ast.Inspect(cond, func(m ast.Node) bool {
				if id, ok := m.(*ast.Ident); ok {
					switch kind[info.Uses[id]] {
					case "CaseClause":
						caseObj = info.Uses[id]
					case "CommClause":
						commObj = info.Uses[id]
					}
				}
				return true
			})
			if caseObj == nil && commObj == nil {
				return true
			}
			n++
			key := fmt.Sprintf("%s: condition `%s` treats case and comm clauses alike", load.FuncName(fd), c.ExprStr(cond))
			if caseObj == nil || commObj == nil {
				e.Run.Violation("R-CLAUSESYM", key, e.Prog.Pos(cond.Pos()), "only one clause kind is mentioned")
				return true
			}
			// truth table over: caseObj, commObj, and every other maximal non-boolean-operator subexpression
			atomIdx := map[string]int{}
			var collect func(x ast.Expr)
			collect = func(x ast.Expr) {
				switch v := x.(type) {
				case *ast.ParenExpr:
					collect(v.X)
				case *ast.UnaryExpr:
					if v.Op == token.NOT {
						collect(v.X)
						return
					}
					k := c.ExprStr(x)
					if _, ok := atomIdx[k]; !ok {
						atomIdx[k] = len(atoms)
						atoms = append(atoms, x)
					}
				case *ast.BinaryExpr:
					if v.Op == token.LAND || v.Op == token.LOR {
						collect(v.X)
						collect(v.Y)
						return
					}
					k := c.ExprStr(x)
					if _, ok := atomIdx[k]; !ok {
						atomIdx[k] = len(atoms)
						atoms = append(atoms, x)
					}
				default:
					k := c.ExprStr(x)
					if _, ok := atomIdx[k]; !ok {
						atomIdx[k] = len(atoms)
						atoms = append(atoms, x)
					}
				}
			}
			collect(cond)
			if len(atoms) > 10 {
				e.Run.Undecided("R-CLAUSESYM", key, e.Prog.Pos(cond.Pos()), "too many atoms")
				return true
			}
			var eval func(x ast.Expr, val []bool, swap bool) bool
			eval = func(x ast.Expr, val []bool, swap bool) bool {
				switch v := x.(type) {
				case *ast.ParenExpr:
					return eval(v.X, val, swap)
				case *ast.UnaryExpr:
					if v.Op == token.NOT {
						return !eval(v.X, val, swap)
					}
				case *ast.BinaryExpr:
					if v.Op == token.LAND {
						return eval(v.X, val, swap) && eval(v.Y, val, swap)
					}
					if v.Op == token.LOR {
						return eval(v.X, val, swap) || eval(v.Y, val, swap)
					}
				case *ast.Ident:
					if swap {
						if info.Uses[v] == caseObj {
							return val[atomIdx[c.ExprStr(identOf(commObj))]]
						}
						if info.Uses[v] == commObj {
							return val[atomIdx[c.ExprStr(identOf(caseObj))]]
						}
					}
				}
				return val[atomIdx[c.ExprStr(x)]]
			}
			sym := true
			for mask := 0; mask < 1<<len(atoms); mask++ {
				val := make([]bool, len(atoms))
				for i := range atoms {
					val[i] = mask&(1<<i) != 0
				}
				if eval(cond, val, false) != eval(cond, val, true) {
					sym = false
					break
				}
			}
			e.Run.Check("R-CLAUSESYM", key, e.Prog.Pos(cond.Pos()), sym,
				"the condition changes when the roles of CaseClause and CommClause are swapped (e.g. a && b || c instead of a && (b || c)): comments in switch and select clauses of identical layout would attach differently")
			return true
		})
	}
	e.Run.Analysed("clause-kind conditions", n)
	// the type-switch form: `case *ast.CommClause, *ast.CaseClause:` lists both
	for _, fd := range load.AllFuncDecls(pkg) {
		if fd.Body == nil || isRestorePath(fd) {
			continue
		}
		ast.Inspect(fd.Body, func(nd ast.Node) bool {
			cc, ok := nd.(*ast.CaseClause)
			if !ok || cc.List == nil {
				return true
			}
			var names []string
			for _, t := range cc.List {
				if tv, ok := info.Types[t]; ok && tv.IsType() {
					_, tn := schema.NamedTypeName(tv.Type)
					names = append(names, tn)
				}
			}
			sort.Strings(names)
			hasCase, hasComm := contains(names, "CaseClause"), contains(names, "CommClause")
			if (hasCase || hasComm) && len(names) <= 2 && fd.Name.Name != "addNodeFragments" && fd.Name.Name != "decorateNode" {
				n++
				e.Run.Check("R-CLAUSESYM", fmt.Sprintf("%s: type-switch arm %v lists both clause kinds", load.FuncName(fd), names), e.Prog.Pos(cc.Pos()), hasCase && hasComm,
					"an arm for one clause kind only")
			}
			return true
		})
	}
	e.Run.Floor("R-CLAUSESYM", "conditions / type-switch arms on clause kinds", n, 1)
}

func identOf(o types.Object) ast.Expr { return &ast.Ident{Name: o.Name()} }

// RAttachWithinFile (R-FILESCOPE): when a package is decorated the fragments of all its files are
// in one position-ordered list, and link() searches that list, forwards and backwards from a
// comment or line break, for the decoration point to attach it to. Every such search loop — a
// `for i := <parameter>; …` over f.fragments in a method of fileDecorator — must stop at the
// boundary between two files: its first statement is an `if` that leaves the loop when the file
// (f.Fset.File(pos)) of the visited fragment differs from the file of the fragment the search
// started from. Without it the comment after the last declaration of one file is attached to the
// Start of the next file (it is printed in the wrong file) and the final line break is lost.
func (e *Env) RAttachWithinFile() {
	pkg := e.Prog.Pkg(load.PkgDecorator)
	info := pkg.TypesInfo
	// helpers that compare the files of two positions
	comparesFiles := func(body ast.Node) bool {
		found := false
		ast.Inspect(body, func(n ast.Node) bool {
			be, ok := n.(*ast.BinaryExpr)
			if !ok || (be.Op != token.EQL && be.Op != token.NEQ) {
				return true
			}
			isFileOf := func(x ast.Expr) bool {
				call, ok := ast.Unparen(x).(*ast.CallExpr)
				return ok && funcKey(calleeFunc(info, call)) == "(*go/token.FileSet).File"
			}
			if isFileOf(be.X) && isFileOf(be.Y) {
				found = true
			}
			return true
		})
		return found
	}
	helper := map[types.Object]bool{}
	for _, fd := range load.AllFuncDecls(pkg) {
		if fd.Body != nil && comparesFiles(fd.Body) {
			if fd.Type.Results != nil && len(fd.Type.Results.List) == 1 && types.ExprString(fd.Type.Results.List[0].Type) == "bool" {
				helper[info.Defs[fd.Name]] = true
			}
		}
	}
	n := 0
	for _, fd := range load.AllFuncDecls(pkg) {
		if fd.Body == nil || fd.Recv == nil || recvTypeName(fd) != "fileDecorator" {
			continue
		}
		params := map[types.Object]bool{}
		for _, p := range fd.Type.Params.List {
			for _, nm := range p.Names {
				params[info.Defs[nm]] = true
			}
		}
		ast.Inspect(fd.Body, func(nd ast.Node) bool {
			fs, ok := nd.(*ast.ForStmt)
			if !ok || fs.Init == nil {
				return true
			}
			init, ok := fs.Init.(*ast.AssignStmt)
			if !ok || len(init.Lhs) != 1 || len(init.Rhs) != 1 {
				return true
			}
			src, ok := ast.Unparen(init.Rhs[0]).(*ast.Ident)
			if !ok || !params[info.Uses[src]] {
				return true
			}
			iv, _ := init.Lhs[0].(*ast.Ident)
			var ivObj types.Object // `for i := from` and `for i = from` (a named result as counter)
			if iv != nil {
				if ivObj = info.Defs[iv]; ivObj == nil {
					ivObj = info.Uses[iv]
				}
			}
			// does the body index f.fragments with the loop variable?
			idx := false
			ast.Inspect(fs.Body, func(m ast.Node) bool {
				if ix, ok := m.(*ast.IndexExpr); ok {
					if se, ok := ix.X.(*ast.SelectorExpr); ok && se.Sel.Name == "fragments" {
						if id, ok := ix.Index.(*ast.Ident); ok && ivObj != nil && info.Uses[id] == ivObj {
							idx = true
						}
					}
				}
				return true
			})
			if !idx {
				return true
			}
			n++
			guarded := false
			if len(fs.Body.List) > 0 {
				if is, ok := fs.Body.List[0].(*ast.IfStmt); ok && len(is.Body.List) > 0 {
					leaves := false
					switch l := is.Body.List[len(is.Body.List)-1].(type) {
					case *ast.ReturnStmt:
						leaves = true
					case *ast.BranchStmt:
						leaves = l.Tok == token.BREAK
					}
					cmp := comparesFiles(is.Cond)
					ast.Inspect(is.Cond, func(m ast.Node) bool {
						if call, ok := m.(*ast.CallExpr); ok {
							if fn := calleeFunc(info, call); fn != nil && helper[fn] {
								// one of the arguments is the visited fragment
								for _, a := range call.Args {
									if ix, ok := ast.Unparen(a).(*ast.IndexExpr); ok {
										if id, ok := ix.Index.(*ast.Ident); ok && ivObj != nil && info.Uses[id] == ivObj {
											cmp = true
										}
									}
								}
							}
						}
						return true
					})
					guarded = leaves && cmp
				}
			}
			e.Run.Check("R-FILESCOPE", fmt.Sprintf("%s: the attachment search stops at the boundary between two files", load.FuncName(fd)), e.Prog.Pos(fs.Pos()), guarded,
				"the loop walks f.fragments from a given fragment without first leaving when f.Fset.File(pos) of the visited fragment differs from that of the start: with a package (ParseDir) a trailing comment of one file is attached to the next file's Start and the file's final line break is lost")
			return true
		})
	}
	e.Run.Analysed("attachment search loops", n)
	e.Run.Floor("R-FILESCOPE", "attachment search loops over f.fragments", n, 3)
}

func recvTypeName(fd *ast.FuncDecl) string {
	if fd.Recv == nil || len(fd.Recv.List) != 1 {
		return ""
	}
	t := fd.Recv.List[0].Type
	if st, ok := t.(*ast.StarExpr); ok {
		t = st.X
	}
	if id, ok := t.(*ast.Ident); ok {
		return id.Name
	}
	return ""
}
