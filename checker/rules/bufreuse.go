package rules

import (
	"go/ast"
	"go/types"

	"dstverif/load"
)

// RBufferReuse (R-SHARED): a per-file buffer of the FileRestorer (a slice-typed field) that is
// handed out by reference while a file is restored — token.File.SetLines keeps the slice it is
// given, a field of the returned *ast.File holds it — is never cut to length 0 and refilled for
// the next file: the result of the earlier call would change with every later call, so identical
// calls stop giving identical results. One obligation per slice-typed field that is stored at all.
func (e *Env) RBufferReuse() {
	pkg := e.Prog.Pkg(load.PkgDecorator)
	info := pkg.TypesInfo
	c := e.Sib.Ctx[load.PkgDecorator]
	tn, _ := pkg.Types.Scope().Lookup("FileRestorer").(*types.TypeName)
	if tn == nil {
		e.Run.Violation("R-SHARED", "FileRestorer", "", "type FileRestorer not found")
		return
	}
	st, ok := tn.Type().Underlying().(*types.Struct)
	if !ok {
		e.Run.Violation("R-SHARED", "FileRestorer", "", "FileRestorer is not a struct")
		return
	}
	n := 0
	for i := 0; i < st.NumFields(); i++ {
		f := st.Field(i)
		if _, isSlice := f.Type().Underlying().(*types.Slice); !isSlice {
			continue
		}
		n++
		field := f.Name()
		bad, pos := "", ""
		for _, fd := range load.AllFuncDecls(pkg) {
			if fd.Body == nil || bad != "" {
				continue
			}
			ast.Inspect(fd.Body, func(nd ast.Node) bool {
				as, ok := nd.(*ast.AssignStmt)
				if !ok || bad != "" || len(as.Lhs) != len(as.Rhs) {
					return true
				}
				for k, l := range as.Lhs {
					if !e.isRestorerField(info, ast.Unparen(l), field) {
						continue
					}
					if form, _ := e.resetForm(c, info, as.Rhs[k], field); form == "truncate" {
						if at, esc := e.bufferEscapes(field); esc {
							bad = "the buffer is cut to length 0 and refilled (" + c.ExprStr(as.Rhs[k]) + " in " + fd.Name.Name + "), but the same array was handed out at " + at + ": what an earlier RestoreFile returned changes when the next file is restored"
							pos = e.Prog.Pos(as.Pos())
						}
					}
				}
				return true
			})
		}
		construct := "FileRestorer." + field + ": a buffer that was handed out is not reused for the next file"
		if bad != "" {
			e.Run.Violation("R-SHARED", construct, pos, bad)
		} else {
			e.Run.OK("R-SHARED", construct, e.Prog.Pos(f.Pos()), "no store truncates the slice while a reference to its array is held elsewhere")
		}
	}
	e.Run.Floor("R-SHARED", "per-file buffers", n, 2)
}

// RPerFileReset (R-SHARED): every unexported slice- or map-typed field of the FileRestorer — the
// state one file's restore accumulates: line starts, comments, deferred object nodes, chosen
// package names — is given a new (or emptied) value where RestoreFile prepares the next file.
// A FileRestorer is documented to be reusable; a collection that is not reset carries the
// previous file's entries into the next one.
func (e *Env) RPerFileReset() {
	pkg := e.Prog.Pkg(load.PkgDecorator)
	info := pkg.TypesInfo
	tn, _ := pkg.Types.Scope().Lookup("FileRestorer").(*types.TypeName)
	if tn == nil {
		return
	}
	st, ok := tn.Type().Underlying().(*types.Struct)
	if !ok {
		return
	}
	n := 0
	for i := 0; i < st.NumFields(); i++ {
		f := st.Field(i)
		if f.Exported() || f.Embedded() {
			continue
		}
		switch f.Type().Underlying().(type) {
		case *types.Slice, *types.Map:
		default:
			continue
		}
		n++
		reset := false
		for _, fd := range load.AllFuncDecls(pkg) {
			if fd.Body == nil || !e.isResetCtx(fd) {
				continue
			}
			ast.Inspect(fd.Body, func(nd ast.Node) bool {
				as, ok := nd.(*ast.AssignStmt)
				if !ok || len(as.Lhs) != len(as.Rhs) {
					return true
				}
				for k, l := range as.Lhs {
					if !e.isRestorerField(info, ast.Unparen(l), f.Name()) {
						continue
					}
					switch r := ast.Unparen(as.Rhs[k]).(type) {
					case *ast.CompositeLit:
						reset = true
					case *ast.CallExpr:
						if id, ok := r.Fun.(*ast.Ident); ok && (id.Name == "make" || id.Name == "append") {
							reset = true // make(…), append(x[:0], …)
						}
					case *ast.SliceExpr:
						reset = true // x[:0]
					case *ast.Ident:
						if r.Name == "nil" {
							reset = true
						}
					}
				}
				return true
			})
		}
		e.Run.Check("R-SHARED", "FileRestorer."+f.Name()+" is reset for every file", e.Prog.Pos(f.Pos()), reset,
			"no store of a new or emptied value in RestoreFile (or its reset helper): a FileRestorer that restores a second file starts with the first file's "+f.Name()+" — its comments are printed into the second file, its line starts corrupt the line table")
	}
	e.Run.Floor("R-SHARED", "per-file collections of the FileRestorer", n, 4)
}
