package rules

import (
	"go/ast"
	"go/types"

	"dstverif/load"
)

// RBufferReuse (R-SHARED): a per-file buffer of the FileRestorer (a slice-typed field) that is
// handed out by reference while a file is restored — token.File.SetLines keeps the slice it is
// given, a field of the returned *ast.File holds it — is never cut to length 0 and refilled for
// the next file: the result of the earlier call would change with every later call, so identical
// calls stop giving identical results. One obligation per slice-typed field that is stored at all.
func (e *Env) RBufferReuse() {
	pkg := e.Prog.Pkg(load.PkgDecorator)
	info := pkg.TypesInfo
	c := e.Sib.Ctx[load.PkgDecorator]
	tn, _ := pkg.Types.Scope().Lookup("FileRestorer").(*types.TypeName)
	if tn == nil {
		e.Run.Violation("R-SHARED", "FileRestorer", "", "type FileRestorer not found")
		return
	}
	st, ok := tn.Type().Underlying().(*types.Struct)
	if !ok {
		e.Run.Violation("R-SHARED", "FileRestorer", "", "FileRestorer is not a struct")
		return
	}
	n := 0
	for i := 0; i < st.NumFields(); i++ {
		f := st.Field(i)
		if _, isSlice := f.Type().Underlying().(*types.Slice); !isSlice {
			continue
		}
		n++
		field := f.Name()
		bad, pos := "", ""
		for _, fd := range load.AllFuncDecls(pkg) {
			if fd.Body == nil || bad != "" {
				continue
			}
			ast.Inspect(fd.Body, func(nd ast.Node) bool {
				as, ok := nd.(*ast.AssignStmt)
				if !ok || bad != "" || len(as.Lhs) != len(as.Rhs) {
					return true
				}
				for k, l := range as.Lhs {
					if !e.isRestorerField(info, ast.Unparen(l), field) {
						continue
					}
					if form, _ := e.resetForm(c, info, as.Rhs[k], field); form == "truncate" {
						if at, esc := e.bufferEscapes(field); esc {
							bad = "the buffer is cut to length 0 and refilled (" + c.ExprStr(as.Rhs[k]) + " in " + fd.Name.Name + "), but the same array was handed out at " + at + ": what an earlier RestoreFile returned changes when the next file is restored"
							pos = e.Prog.Pos(as.Pos())
						}
					}
				}
				return true
			})
		}
		construct := "FileRestorer." + field + ": a buffer that was handed out is not reused for the next file"
		if bad != "" {
			e.Run.Violation("R-SHARED", construct, pos, bad)
		} else {
			e.Run.OK("R-SHARED", construct, e.Prog.Pos(f.Pos()), "no store truncates the slice while a reference to its array is held elsewhere")
		}
	}
	e.Run.Floor("R-SHARED", "per-file buffers", n, 2)
}
