package rules

import (
	"fmt"
	"go/ast"
	"go/token"
	"go/types"
	"strings"

	"dstverif/load"
	"dstverif/schema"
)

// RGates (R-GATE): small gates at the head of anchored functions whose exact condition decides
// whether ordinary inputs reach code that cannot handle them. Each is a path-condition rule on a
// named statement; they came out of the mutation sweep (DESIGN 8.21), where the tests let the
// broken forms through.
//
//   - updateImports' scan treats a *dst.GenDecl as a list of import specs only when its token is
//     IMPORT: the assertion spec.(*dst.ImportSpec) behind it is reached under `n.Tok == token.IMPORT`;
//   - decorateSelectorExpr hands the selector back to the ordinary converter when there is no
//     resolver: (nil, nil) first, under exactly `f.Resolver == nil` (everything behind it calls it);
//   - NewDecorator replaces a nil file set, under exactly `fset == nil`;
//   - the loops of Load over a package's files and of fileOf over the files of a package skip
//     elements with continue, never leave with break.
func (e *Env) RGates() {
	pkg := e.Prog.Pkg(load.PkgDecorator)
	info := pkg.TypesInfo
	c := e.Sib.Ctx[load.PkgDecorator]
	// (1) GenDecl arm
	if fd := load.FuncDecl(pkg, "FileRestorer", "updateImports"); fd != nil && fd.Body != nil {
		n := 0
		ast.Inspect(fd.Body, func(nd ast.Node) bool {
			ta, ok := nd.(*ast.TypeAssertExpr)
			if !ok || ta.Type == nil {
				return true
			}
			if _, tn := namedOf(info.TypeOf(ta.Type)); tn != "ImportSpec" {
				return true
			}
			// n.Specs[i].(*dst.ImportSpec) inside the scan callback (a FuncLit)
			var lit *ast.FuncLit
			ast.Inspect(fd.Body, func(m ast.Node) bool {
				if fl, ok := m.(*ast.FuncLit); ok && fl.Body.Pos() <= ta.Pos() && ta.End() <= fl.Body.End() {
					lit = fl
				}
				return true
			})
			if lit == nil {
				return true
			}
			var cc *ast.CaseClause
			ast.Inspect(lit.Body, func(m ast.Node) bool {
				if cl, ok := m.(*ast.CaseClause); ok && cl.Pos() <= ta.Pos() && ta.End() <= cl.End() && len(cl.List) == 1 {
					if _, tn := namedOf(info.TypeOf(cl.List[0])); tn == "GenDecl" {
						cc = cl
					}
				}
				return true
			})
			if cc == nil {
				return true
			}
			n++
			var at ast.Node = ta
			ast.Inspect(cc, func(m ast.Node) bool {
				if st, ok := m.(ast.Stmt); ok && st.Pos() <= ta.Pos() && ta.End() <= st.End() {
					if _, isBlock := st.(*ast.BlockStmt); !isBlock {
						if _, isCase := st.(*ast.CaseClause); !isCase && at == ast.Node(ta) {
							at = st
						}
					}
				}
				return true
			})
			pc, okp := pathCond(c, cc.Body, at)
			imp, dec := unsatWith(orTrue(pc), "n.Tok != token.IMPORT")
			e.Run.Check("R-GATE", "updateImports: only import declarations are read as lists of import specs", e.Prog.Pos(ta.Pos()), okp && dec && imp,
				"the specs of a declaration are asserted to be import specs under «"+pc+"», which does not require n.Tok == token.IMPORT: restoring any file with a one-spec var, const or type declaration panics")
			return true
		})
		e.Run.Analysed("R-GATE import-spec assertions in the scan", n)
	}
	// (2) decorateSelectorExpr
	if fd := load.FuncDecl(pkg, "fileDecorator", "decorateSelectorExpr"); fd != nil && fd.Body != nil {
		ok := false
		why := "no leading `if f.Resolver == nil { return nil, nil }`"
		for _, st := range fd.Body.List {
			is, isIf := st.(*ast.IfStmt)
			if !isIf {
				if _, isDecl := st.(*ast.DeclStmt); isDecl {
					continue
				}
				break
			}
			cond := strings.TrimSpace(c.ExprStr(is.Cond))
			if cond == "f.Resolver == nil" && len(is.Body.List) == 1 {
				if rs, isRet := is.Body.List[0].(*ast.ReturnStmt); isRet && len(rs.Results) == 2 && c.ExprStr(rs.Results[0]) == "nil" && c.ExprStr(rs.Results[1]) == "nil" {
					ok = true
				}
			} else {
				why = "the first test is `" + cond + "`"
			}
			break
		}
		e.Run.Check("R-GATE", "decorateSelectorExpr leaves selectors to the ordinary converter when there is no resolver", e.Prog.Pos(fd.Pos()), ok,
			why+": without a resolver every selector expression of every file reaches f.Resolver.ResolveIdent — a nil interface")
	}
	// (3) NewDecorator
	for _, fd := range load.AllFuncDecls(pkg) {
		if fd.Body == nil || fd.Recv != nil || fd.Name.Name != "NewDecorator" || fd.Type.Params == nil || len(fd.Type.Params.List) != 1 || len(fd.Type.Params.List[0].Names) != 1 {
			continue
		}
		p := fd.Type.Params.List[0].Names[0]
		ok := false
		ast.Inspect(fd.Body, func(nd ast.Node) bool {
			as, isAs := nd.(*ast.AssignStmt)
			if !isAs || len(as.Lhs) != 1 {
				return true
			}
			if id, isID := as.Lhs[0].(*ast.Ident); isID && info.Uses[id] == info.Defs[p] {
				pc, okp := pathCond(c, fd.Body.List, as)
				ok = okp && strings.TrimSpace(pc) == p.Name+" == nil"
			}
			return true
		})
		e.Run.Check("R-GATE", "NewDecorator replaces a nil file set", e.Prog.Pos(fd.Pos()), ok,
			"no `if "+p.Name+" == nil { "+p.Name+" = token.NewFileSet() }` (exactly that test): decorator.Parse / ParseFile with the documented nil file set dereference nil")
	}
	// (4) no break in the file loops
	for _, sp := range [][2]string{{"", "Load"}, {"fileDecorator", "fileOf"}} {
		fd := load.FuncDecl(pkg, sp[0], sp[1])
		if fd == nil || fd.Body == nil {
			continue
		}
		ast.Inspect(fd.Body, func(nd ast.Node) bool {
			rs, ok := nd.(*ast.RangeStmt)
			if !ok {
				return true
			}
			elem := types.ExprString(rs.X)
			if !strings.HasSuffix(elem, ".Syntax") && !strings.HasSuffix(elem, "packageFiles") {
				return true
			}
			ast.Inspect(rs.Body, func(m ast.Node) bool {
				switch b := m.(type) {
				case *ast.ForStmt, *ast.RangeStmt, *ast.SwitchStmt, *ast.TypeSwitchStmt, *ast.SelectStmt, *ast.FuncLit:
					return false
				case *ast.BranchStmt:
					if b.Tok == token.BREAK {
						e.Run.Violation("R-GATE", fmt.Sprintf("%s: the loop over %s looks at every file", sp[1], elem), e.Prog.Pos(b.Pos()),
							"a break leaves the loop at the first file that is skipped (a generated cgo file that is not in GoFiles, a doc.go without declarations): the files behind it are not decorated / not searched — and which those are depends on the order of the list")
					}
				}
				return true
			})
			return true
		})
	}
}

// RGoastGates (R-GATE, goast resolver): the package-name resolver the caller supplied is replaced
// by the guessing default only when there is none (the store under exactly `r.RestorerResolver ==
// nil`), and an import's alias is what the file calls the package (`name = <spec>.Name.Name` under
// exactly `<spec>.Name != nil`; without it aliased imports — and dot and blank ones — are looked up
// under their package names).
func (e *Env) RGoastGates() {
	pkg := e.Prog.Pkg(load.PkgGoast)
	info := pkg.TypesInfo
	c := schema.CtxFor(e.Prog, load.PkgGoast)
	if c == nil {
		return
	}
	fd := load.FuncDecl(pkg, "DecoratorResolver", "imports")
	if fd == nil || fd.Body == nil {
		return
	}
	nDef, nAlias := 0, 0
	// (the scan of one import spec may live in a helper: every function of the package is read)
	for _, fd := range load.AllFuncDecls(pkg) {
		if fd.Body == nil {
			continue
		}
		fd := fd
		ast.Inspect(fd.Body, func(nd ast.Node) bool {
			as, ok := nd.(*ast.AssignStmt)
			if !ok || len(as.Lhs) != 1 || len(as.Rhs) != 1 {
				return true
			}
			// r.RestorerResolver = guess.New()
			if se, ok := ast.Unparen(as.Lhs[0]).(*ast.SelectorExpr); ok && se.Sel.Name == "RestorerResolver" {
				nDef++
				lhs := types.ExprString(se)
				pc, okp := pathCond(c, fd.Body.List, as)
				e.Run.Check("R-GATE", "goast: the caller's package-name resolver is replaced by the default only when there is none", e.Prog.Pos(as.Pos()), okp && strings.TrimSpace(pc) == lhs+" == nil",
					"the default is stored under «"+pc+"» (specified: `"+lhs+" == nil`): the resolver given to goast.WithResolver is thrown away, packages whose name is not the last element of their path (gopkg.in/yaml.v2) are no longer recognised")
			}
			// name = node.Name.Name
			if id, ok := as.Lhs[0].(*ast.Ident); ok {
				if se, ok := ast.Unparen(as.Rhs[0]).(*ast.SelectorExpr); ok && se.Sel.Name == "Name" {
					if inner, ok := ast.Unparen(se.X).(*ast.SelectorExpr); ok && inner.Sel.Name == "Name" {
						if _, tn := namedOf(info.TypeOf(inner.X)); tn == "ImportSpec" {
							nAlias++
							want := types.ExprString(inner) + " != nil"
							// the condition inside the innermost function literal / function
							body := fd.Body.List
							ast.Inspect(fd.Body, func(m ast.Node) bool {
								if fl, ok := m.(*ast.FuncLit); ok && fl.Body.Pos() <= as.Pos() && as.End() <= fl.Body.End() {
									body = fl.Body.List
								}
								return true
							})
							pc, okp := pathCond(c, body, as)
							has, bad := false, false
							for _, cj := range flatConjuncts(orTrue(pc)) {
								cj = strings.TrimSpace(cj)
								if cj == want {
									has = true
								}
								if cj == "false" {
									bad = true
								}
							}
							e.Run.Check("R-GATE", "goast: an import's alias is the name the file uses for the package", e.Prog.Pos(as.Pos()), okp && has && !bad,
								"`"+id.Name+" = "+types.ExprString(as.Rhs[0])+"` runs under «"+pc+"» (needs the conjunct `"+want+"` and no constant): aliased imports are entered under their package names, `f.Println` with `import f \"fmt\"` gets no path, dot and blank imports are treated as ordinary ones")
						}
					}
				}
			}
			return true
		})
	}
	e.Run.Analysed("R-GATE goast default resolver stores", nDef)
	e.Run.Floor("R-GATE", "goast alias reads (name = <spec>.Name.Name)", nAlias, 1)
}

// RMapInit (R-MAPS): a map-typed field of the node being built is allocated before it is stored
// into: `out.F[k] = v` in a converter case needs an earlier `out.F = map…{}` / make in the same
// case (a nil map panics on the first entry).
func (e *Env) RMapInit() {
	n := 0
	for _, path := range []string{load.PkgDecorator, load.PkgDst} {
		pkg := e.Prog.Pkg(path)
		info := pkg.TypesInfo
		for _, fd := range load.AllFuncDecls(pkg) {
			if fd.Body == nil {
				continue
			}
			ast.Inspect(fd.Body, func(nd ast.Node) bool {
				cc, ok := nd.(*ast.CaseClause)
				if !ok {
					return true
				}
				inited := map[string]bool{}
				for _, st := range cc.Body {
					ast.Inspect(st, func(m ast.Node) bool {
						as, ok := m.(*ast.AssignStmt)
						if !ok {
							return true
						}
						for i, l := range as.Lhs {
							if se, ok := ast.Unparen(l).(*ast.SelectorExpr); ok && i < len(as.Rhs) {
								if _, isMap := info.TypeOf(se).Underlying().(*types.Map); isMap {
									switch r := ast.Unparen(as.Rhs[i]).(type) {
									case *ast.CompositeLit:
										inited[types.ExprString(se)] = true
									case *ast.CallExpr:
										if id, ok := r.Fun.(*ast.Ident); ok && id.Name == "make" {
											inited[types.ExprString(se)] = true
										}
									}
								}
							}
							ix, ok := ast.Unparen(l).(*ast.IndexExpr)
							if !ok {
								continue
							}
							se, ok := ast.Unparen(ix.X).(*ast.SelectorExpr)
							if !ok {
								continue
							}
							id, ok := se.X.(*ast.Ident)
							if !ok || id.Name != "out" {
								continue
							}
							if _, isMap := info.TypeOf(se).Underlying().(*types.Map); !isMap {
								continue
							}
							n++
							e.Run.Check("R-MAPS", fmt.Sprintf("%s: %s is allocated before it is stored into", load.FuncName(fd), types.ExprString(se)), e.Prog.Pos(as.Pos()), inited[types.ExprString(se)],
								"the map field of the new node is still nil at this store: the first entry panics (assignment to entry in nil map)")
						}
						return true
					})
				}
				return true
			})
		}
	}
	e.Run.Analysed("R-MAPS stores into map fields of new nodes", n)
}

// RCgoBlock (R-GATE): the two special cases for `import "C"` in updateImports. (1) A declaration
// is set aside as the cgo block — not offered as a place for new imports — only when it is exactly
// the lone `import "C"`: the flag is stored under `len(n.Specs) == 1 && <path of Specs[0]> == "C"`.
// (2) A new import declaration is put into File.Decls without losing or repeating a declaration:
// the new list is either `gd` followed by all of Decls, or Decls[0], gd, Decls[1:]... — a prefix
// Decls[:k] (written element by element), the new declaration, and the rest Decls[k:] with the
// same k.
func (e *Env) RCgoBlock() {
	pkg := e.Prog.Pkg(load.PkgDecorator)
	info := pkg.TypesInfo
	c := e.Sib.Ctx[load.PkgDecorator]
	fd := load.FuncDecl(pkg, "FileRestorer", "updateImports")
	if fd == nil || fd.Body == nil {
		return
	}
	nFlag, nSplice := 0, 0
	ast.Inspect(fd.Body, func(nd ast.Node) bool {
		as, ok := nd.(*ast.AssignStmt)
		if !ok || len(as.Lhs) != 1 || len(as.Rhs) != 1 {
			return true
		}
		// (1) hasCgoBlock = true
		if id, ok := as.Lhs[0].(*ast.Ident); ok && id.Name == "hasCgoBlock" && types.ExprString(as.Rhs[0]) == "true" {
			nFlag++
			body := fd.Body.List
			ast.Inspect(fd.Body, func(m ast.Node) bool {
				if fl, ok := m.(*ast.FuncLit); ok && fl.Body.Pos() <= as.Pos() && as.End() <= fl.Body.End() {
					body = fl.Body.List
				}
				return true
			})
			pc, okp := pathCond(c, body, as)
			one, isC := false, false
			for _, cj := range flatConjuncts(orTrue(pc)) {
				cj = strings.TrimSpace(cj)
				if strings.HasPrefix(cj, "len(") && strings.HasSuffix(cj, ".Specs) == 1") {
					one = true
				}
				if strings.HasSuffix(cj, `== "C"`) && strings.Contains(cj, "Specs[0]") {
					isC = true
				}
			}
			e.Run.Check("R-GATE", "updateImports: only the lone import \"C\" is set aside as the cgo block", e.Prog.Pos(as.Pos()), okp && one && isC,
				"the flag is set under «"+pc+"» (specified: exactly one spec, and its path is \"C\"): an empty `import ()` is indexed at [0] and panics, or an ordinary single import is set aside and no longer updated")
		}
		// (2) r.file.Decls = append([]dst.Decl{…, gd, …}, r.file.Decls[k:]...)
		se, ok := ast.Unparen(as.Lhs[0]).(*ast.SelectorExpr)
		if !ok || se.Sel.Name != "Decls" {
			return true
		}
		call, ok := ast.Unparen(as.Rhs[0]).(*ast.CallExpr)
		if !ok || len(call.Args) != 2 || !call.Ellipsis.IsValid() {
			return true
		}
		lit, ok := ast.Unparen(call.Args[0]).(*ast.CompositeLit)
		if !ok {
			return true
		}
		decls := types.ExprString(se)
		nSplice++
		// prefix elements Decls[0], Decls[1], …, then exactly one element that is not taken from Decls
		k, fresh, good := 0, 0, true
		for _, el := range lit.Elts {
			if ix, ok := ast.Unparen(el).(*ast.IndexExpr); ok && types.ExprString(ix.X) == decls {
				if v, ok := constInt(info, ix.Index); !ok || int(v) != k || fresh > 0 {
					good = false
				}
				k++
				continue
			}
			fresh++
		}
		rest := ast.Unparen(call.Args[1])
		switch r := rest.(type) {
		case *ast.SliceExpr:
			lo := int64(0)
			if r.Low != nil {
				v, ok := constInt(info, r.Low)
				if !ok {
					good = false
				}
				lo = v
			}
			if types.ExprString(r.X) != decls || r.High != nil || int(lo) != k {
				good = false
			}
		default:
			if types.ExprString(rest) != decls || k != 0 {
				good = false
			}
		}
		e.Run.Check("R-GATE", "updateImports: a new import declaration is inserted into File.Decls without dropping or repeating a declaration", e.Prog.Pos(as.Pos()), good && fresh == 1,
			"the new list is `"+c.ExprStr(as.Rhs[0])+"`: it must be Decls[0..k-1], the new declaration, Decls[k:]... for one k — otherwise the cgo import (or the declaration behind it) is lost or restored twice (\"duplicate node\")")
		return true
	})
	// (3) the declaration that is offered as the place for new specs (blocks = append(blocks, gd))
	// has been put into File.Decls on every path that leads there
	ast.Inspect(fd.Body, func(nd ast.Node) bool {
		blk, ok := nd.(*ast.BlockStmt)
		if !ok {
			return true
		}
		for i, st := range blk.List {
			as, ok := st.(*ast.AssignStmt)
			if !ok || len(as.Lhs) != 1 || len(as.Rhs) != 1 || types.ExprString(as.Lhs[0]) != "blocks" {
				continue
			}
			call, ok := ast.Unparen(as.Rhs[0]).(*ast.CallExpr)
			if !ok || len(call.Args) != 2 {
				continue
			}
			gd, ok := ast.Unparen(call.Args[1]).(*ast.Ident)
			if !ok || info.Uses[gd] == nil {
				continue
			}
			// only a declaration that was created here (x := &dst.GenDecl{…})
			created := false
			for _, prev := range blk.List[:i] {
				if d, ok := prev.(*ast.AssignStmt); ok && d.Tok == token.DEFINE && len(d.Lhs) == 1 {
					if id, ok := d.Lhs[0].(*ast.Ident); ok && info.Defs[id] == info.Uses[gd] {
						created = true
					}
				}
			}
			if !created {
				continue
			}
			stores := func(n ast.Node) bool {
				found := false
				ast.Inspect(n, func(m ast.Node) bool {
					if a, ok := m.(*ast.AssignStmt); ok && len(a.Lhs) == 1 {
						if se, ok := ast.Unparen(a.Lhs[0]).(*ast.SelectorExpr); ok && se.Sel.Name == "Decls" {
							ast.Inspect(a.Rhs[0], func(x ast.Node) bool {
								if id, ok := x.(*ast.Ident); ok && info.Uses[id] == info.Uses[gd] {
									found = true
								}
								return true
							})
						}
					}
					return true
				})
				return found
			}
			inserted := false
			for _, prev := range blk.List[:i] {
				switch p := prev.(type) {
				case *ast.IfStmt:
					if p.Else != nil && stores(p.Body) && stores(p.Else) {
						inserted = true
					}
				case *ast.AssignStmt:
					if stores(p) {
						inserted = true
					}
				}
			}
			e.Run.Check("R-GATE", "updateImports: a newly created import declaration is in File.Decls on every path", e.Prog.Pos(as.Pos()), inserted,
				"the declaration "+gd.Name+" receives the new import specs but is not stored into File.Decls on every path that leads here: with a cgo block in the file the added imports are never printed")
		}
		return true
	})
	e.Run.Analysed("R-GATE cgo block flag stores", nFlag)
	e.Run.Analysed("R-GATE insertions of a new import declaration", nSplice)
}
