package rules

func init() {
	register("C01", Meta{
		Explanation: "Static sibling agreement: for all 54 node types the fragger (ast positions → fragments), decorate (ast→dst) and restore (dst→ast + synthetic positions) agree on the ordered schema of decoration points, tokens, strings and children, with equivalent guards and symmetric value fields; parse entry points force ParseComments; print entry points print with the restorer's own FileSet. Decides these structural necessary conditions for every input at once; the hanging comments of a case / comm clause are searched at the indent of its body on every path; a line-break decoration never starts the new line where the restored content ends (line-state machine). Does not decide byte equality through go/printer nor the other comment attachment heuristics.",
		NotCovered:  []string{"byte equality through go/printer", "link() attachment heuristics other than the hanging-indent rule of clauses", "mergeDecorations layouts"},
	}, func(e *Env) {
		e.RCover("fragger", e.astNodeNames(), false)
		e.RCover("decorate", e.astNodeNames(), false)
		e.RCover("restore", e.dstNodeNames(), true)
		e.RSeq()
		e.RSym()
		e.RDecs(false)
		e.REntry()
		e.RFileScope()
		e.RPerFileState()
		e.RPackageCommentGap()
		e.RGates()
		e.RMapInit()
		e.RGuard("fragger", "decorate", "restore")
		e.RNewlineScan()
		e.RClauseSym()
		e.RHangGuard()
		e.RCursor(false)
		e.RColumnOne()
		e.markerDiscipline()
		e.RFragHelpers()
		e.RFragOrder()
	})
}
