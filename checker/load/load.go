// Package load loads /repo's current working tree (typed syntax for every package, dependencies
// included) through go/packages. Nothing is executed: `go list` only resolves files and build tags.
package load

import (
	"fmt"
	"go/ast"
	"go/token"
	"go/types"
	"os"
	"path/filepath"
	"sort"
	"strings"

	"golang.org/x/tools/go/packages"
)

const (
	ModPath      = "github.com/dave/dst"
	PkgDst       = ModPath
	PkgDecorator = ModPath + "/decorator"
	PkgDstutil   = ModPath + "/dstutil"
	PkgGoast     = ModPath + "/decorator/resolver/goast"
	PkgGotypes   = ModPath + "/decorator/resolver/gotypes"
	PkgGuess     = ModPath + "/decorator/resolver/guess"
	PkgSimple    = ModPath + "/decorator/resolver/simple"
	PkgResolver  = ModPath + "/decorator/resolver"
	PkgGobuild   = ModPath + "/decorator/resolver/gobuild"
	PkgGopkgs    = ModPath + "/decorator/resolver/gopackages"
	PkgAstutil   = "golang.org/x/tools/go/ast/astutil"
)

// InScope are the packages whose source carries the properties (generators and data tables are
// not: editing them alone changes no behaviour).
var InScope = []string{
	PkgDst, PkgDecorator, PkgDstutil, PkgResolver, PkgGoast, PkgGotypes, PkgGuess, PkgSimple,
	ModPath + "/decorator/resolver/gobuild", ModPath + "/decorator/resolver/gopackages",
}

// Program is the loaded, type-checked program.
type Program struct {
	RepoDir string
	Fset    *token.FileSet
	Roots   []*packages.Package
	All     map[string]*packages.Package // by PkgPath, dependencies included
	Env     []string
	Overlay map[string][]byte
}

// Options for Load.
type Options struct {
	RepoDir     string
	GOOS        string
	GOARCH      string
	Overlay     map[string][]byte
	noCanon     bool // second load: names are canonical already
	noInline    bool // no (further) inlining of new helpers
	inlineRound int
	// Light loads only the in-scope packages' syntax (NeedDeps types from export data are not
	// available offline for all deps, so deps are still type-checked from source, but their
	// syntax is dropped).
}

// RepoDir returns the repository directory (env DSTVERIF_REPO overrides /repo; used only by the
// checker's own development tests against scratch copies).
func RepoDir() string {
	if d := os.Getenv("DSTVERIF_REPO"); d != "" {
		return d
	}
	return "/repo"
}

// Load loads the program. It fails (error) on any type error in a root package, on a package
// count below the confirmed floor, and on go list errors.
func Load(opt Options) (*Program, error) {
	if opt.RepoDir == "" {
		opt.RepoDir = RepoDir()
	}
	env := []string{}
	for _, e := range os.Environ() {
		if strings.HasPrefix(e, "GOWORK=") || strings.HasPrefix(e, "GOFLAGS=") || strings.HasPrefix(e, "GOPROXY=") ||
			strings.HasPrefix(e, "GOSUMDB=") || strings.HasPrefix(e, "GOTOOLCHAIN=") || strings.HasPrefix(e, "GOOS=") ||
			strings.HasPrefix(e, "GOARCH=") || strings.HasPrefix(e, "CGO_ENABLED=") {
			continue
		}
		env = append(env, e)
	}
	env = append(env, "GOWORK=off", "GOFLAGS=-mod=mod", "GOPROXY=off", "GOSUMDB=off", "GOTOOLCHAIN=local", "CGO_ENABLED=0")
	if opt.GOOS != "" {
		env = append(env, "GOOS="+opt.GOOS)
	}
	if opt.GOARCH != "" {
		env = append(env, "GOARCH="+opt.GOARCH)
	}
	fset := token.NewFileSet()
	cfg := &packages.Config{
		Mode:    packages.LoadAllSyntax,
		Dir:     opt.RepoDir,
		Env:     env,
		Fset:    fset,
		Tests:   false,
		Overlay: opt.Overlay,
	}
	roots, err := packages.Load(cfg, "./...", "go/ast", PkgAstutil)
	if err != nil {
		return nil, fmt.Errorf("go/packages: %w", err)
	}
	p := &Program{RepoDir: opt.RepoDir, Fset: fset, Roots: roots, All: map[string]*packages.Package{}, Env: env, Overlay: opt.Overlay}
	var errs []string
	packages.Visit(roots, nil, func(pkg *packages.Package) {
		p.All[pkg.PkgPath] = pkg
		if strings.HasPrefix(pkg.PkgPath, ModPath) {
			for _, e := range pkg.Errors {
				errs = append(errs, e.Error())
			}
			if pkg.IllTyped {
				errs = append(errs, pkg.PkgPath+": ill-typed")
			}
		}
	})
	if len(errs) > 0 {
		sort.Strings(errs)
		if len(errs) > 8 {
			errs = errs[:8]
		}
		return nil, fmt.Errorf("load/type-check errors:\n  %s", strings.Join(errs, "\n  "))
	}
	n := 0
	for path := range p.All {
		if strings.HasPrefix(path, ModPath) {
			n++
		}
	}
	if n < 12 {
		return nil, fmt.Errorf("only %d packages of %s loaded (confirmed floor: 12)", n, ModPath)
	}
	for _, need := range append(append([]string{}, InScope...), "go/ast", PkgAstutil, "go/token") {
		pkg := p.All[need]
		if pkg == nil || pkg.Types == nil || len(pkg.Syntax) == 0 {
			return nil, fmt.Errorf("package %s not loaded with syntax", need)
		}
	}
	if !opt.noCanon {
		// unexported declarations of the decorator package that were renamed are read under the
		// names the rules know (load/canon.go): second load with an overlay
		if rename, notes := p.discoverRenames(); len(rename) > 0 {
			if ov := p.canonOverlay(rename); ov != nil {
				merged := map[string][]byte{}
				for k, v := range opt.Overlay {
					merged[k] = v
				}
				for k, v := range ov {
					merged[k] = v
				}
				opt2 := opt
				opt2.Overlay = merged
				opt2.noCanon = true
				opt2.noInline = true
				// best effort: if the renamed sources do not type-check (a name collision the
				// discovery did not foresee) the tree is analysed under its own names
				if p2, err := Load(opt2); err == nil {
					Renames = notes
					p = p2
				}
			}
		}
	}
	if !opt.noInline && opt.inlineRound < 3 {
		// calls of helpers the rules have never seen are replaced by the helper's body
		// (load/inline.go); best effort as well
		if ov, notes := p.inlineOverlay(); len(ov) > 0 {
			merged := map[string][]byte{}
			for k, v := range p.Overlay {
				merged[k] = v
			}
			for k, v := range ov {
				merged[k] = v
			}
			opt3 := opt
			opt3.Overlay = merged
			opt3.noCanon = true
			opt3.inlineRound = opt.inlineRound + 1
			saved := Inlined
			Inlined = append(append([]string{}, Inlined...), notes...)
			if p3, err := Load(opt3); err == nil {
				return p3, nil
			} else if os.Getenv("DSTVERIF_DEBUG_INLINE") != "" {
				fmt.Fprintf(os.Stderr, "inline: rewritten sources rejected: %v\n", err)
				for name, b := range ov {
					os.WriteFile("/tmp/inline_"+strings.ReplaceAll(strings.TrimPrefix(name, "/"), "/", "_"), b, 0o644)
				}
			}
			Inlined = saved
		}
	}
	return p, nil
}

// Pkg returns the package or panics (load guarantees the in-scope ones).
func (p *Program) Pkg(path string) *packages.Package {
	pkg := p.All[path]
	if pkg == nil {
		panic("package not loaded: " + path)
	}
	return pkg
}

// InScopePkgs returns the in-scope packages in stable order.
func (p *Program) InScopePkgs() []*packages.Package {
	var out []*packages.Package
	for _, path := range InScope {
		if pkg := p.All[path]; pkg != nil {
			out = append(out, pkg)
		}
	}
	return out
}

// Pos renders a position relative to the repo (or GOROOT/modcache-relative for others).
func (p *Program) Pos(pos token.Pos) string {
	if !pos.IsValid() {
		return "-"
	}
	position := p.Fset.Position(pos)
	name := position.Filename
	if rel, err := filepath.Rel(p.RepoDir, name); err == nil && !strings.HasPrefix(rel, "..") {
		name = rel
	}
	return fmt.Sprintf("%s:%d", name, position.Line)
}

// File returns the repo-relative file name of pos (no line): used for obligation keys.
func (p *Program) File(pos token.Pos) string {
	s := p.Pos(pos)
	if i := strings.LastIndex(s, ":"); i > 0 {
		return s[:i]
	}
	return s
}

// FuncDecl finds a function or method declaration. recv is "" for functions, else the receiver's
// type name (pointer or not).
func FuncDecl(pkg *packages.Package, recv, name string) *ast.FuncDecl {
	for _, f := range pkg.Syntax {
		for _, d := range f.Decls {
			fd, ok := d.(*ast.FuncDecl)
			if !ok || fd.Name.Name != name {
				continue
			}
			if recv == "" {
				if fd.Recv == nil {
					return fd
				}
				continue
			}
			if fd.Recv == nil || len(fd.Recv.List) != 1 {
				continue
			}
			t := fd.Recv.List[0].Type
			if s, ok := t.(*ast.StarExpr); ok {
				t = s.X
			}
			if id, ok := t.(*ast.Ident); ok && id.Name == recv {
				return fd
			}
		}
	}
	return nil
}

// AllFuncDecls returns every function declaration of pkg (non-test; Tests=false at load).
func AllFuncDecls(pkg *packages.Package) []*ast.FuncDecl {
	var out []*ast.FuncDecl
	for _, f := range pkg.Syntax {
		for _, d := range f.Decls {
			if fd, ok := d.(*ast.FuncDecl); ok {
				out = append(out, fd)
			}
		}
	}
	return out
}

// FuncName renders "(*T).m" / "f" for a FuncDecl.
func FuncName(fd *ast.FuncDecl) string {
	if fd.Recv == nil || len(fd.Recv.List) == 0 {
		return fd.Name.Name
	}
	return "(" + types.ExprString(fd.Recv.List[0].Type) + ")." + fd.Name.Name
}

// LookupType returns the named type in pkg's scope.
func LookupType(pkg *packages.Package, name string) *types.Named {
	obj := pkg.Types.Scope().Lookup(name)
	if obj == nil {
		return nil
	}
	n, _ := obj.Type().(*types.Named)
	return n
}
