package load

import (
	"fmt"
	"go/ast"
	"go/types"
	"os"
	"sort"
	"strings"

	"golang.org/x/tools/go/packages"
)

// Canonical names.
//
// The rules find the unexported functions, methods, struct fields and receivers they reason about
// by name ("applyDecorations", "r.cursor"). A maintainer who renames one of them changes no
// behaviour, so the checker must not notice: after loading, every unexported function, method and
// field of the decorator package that is missing under the name recorded in the table below (the
// names of the tree the rules were written against) is looked for by what it is — the same
// receiver and signature, or the same struct and field type — and, when exactly one unrecorded
// declaration fits, the identifiers that refer to it are given the recorded name: the program is
// loaded a second time with an overlay of the decorator package in which exactly those identifiers
// are replaced (found through the type checker's Defs/Uses, not by text), so that syntax, types
// and objects all carry the recorded names. Receivers are given the recorded receiver name of
// their method. Nothing is written to disk; line numbers are unchanged; reports quote the
// canonical name and the position.
// An exported name is API and is never adapted. A declaration that fits nothing (a new helper, a
// changed signature) is left alone: the rule that needs it says that it is missing.

type roleKind int

const (
	roleMethod roleKind = iota
	roleFunc
	roleField
	roleType
	roleVar
)

type roleEntry struct {
	pkg    string // package path
	kind   roleKind
	owner  string // receiver / struct type name; "" for functions
	name   string
	sig    string // signature or field type
	recv   string // receiver variable name (methods)
	params string // names of parameters and results, comma-separated (functions and methods)
	locals string // local variables in source order, "name:type;…" (functions and methods); for roleVar unused
}

// Renames lists what Canonicalise adapted, for the evidence files.
var Renames []string

// CanonName is the name of obj in the canonical view: after the second load the objects
// themselves carry the recorded names.
func CanonName(obj types.Object) string {
	if obj == nil {
		return ""
	}
	return obj.Name()
}

func typeStr(t types.Type) string {
	return types.TypeString(t, func(p *types.Package) string { return p.Path() })
}

// typeShape: what identifies an unexported type whatever it is called — its underlying type and
// the names and signatures of its methods.
func typeShape(tn *types.TypeName) string {
	out := typeStr(tn.Type().Underlying())
	var ms []string
	mset := types.NewMethodSet(types.NewPointer(tn.Type()))
	for i := 0; i < mset.Len(); i++ {
		if fn, ok := mset.At(i).Obj().(*types.Func); ok {
			ms = append(ms, fn.Name()+sigStr(fn.Type().(*types.Signature)))
		}
	}
	sort.Strings(ms)
	// the type's own name (in the result of a method, in a self-referential field) is not part of
	// what it is
	return replaceWord(out+" {"+strings.Join(ms, "; ")+"}", tn.Pkg().Path()+"."+tn.Name(), "SELF")
}

func sigStr(sig *types.Signature) string {
	tuple := func(t *types.Tuple) string {
		var parts []string
		for i := 0; i < t.Len(); i++ {
			ts := typeStr(t.At(i).Type())
			if sig.Variadic() && t == sig.Params() && i == t.Len()-1 {
				ts = "..." + strings.TrimPrefix(ts, "[]")
			}
			parts = append(parts, ts)
		}
		return "(" + strings.Join(parts, ", ") + ")"
	}
	return "func" + tuple(sig.Params()) + " " + tuple(sig.Results())
}

// Roles dumps the role table of pkg as Go source (used once, to freeze the table).
func Roles(pkg *packages.Package) string {
	var out []string
	for _, e := range rolesOf(pkg) {
		out = append(out, fmt.Sprintf("\t{%q, %d, %q, %q, %q, %q, %q, %q},", e.pkg, e.kind, e.owner, e.name, e.sig, e.recv, e.params, e.locals))
	}
	return strings.Join(out, "\n")
}

func rolesOf(pkg *packages.Package) []roleEntry {
	var out []roleEntry
	info := pkg.TypesInfo
	for _, f := range pkg.Syntax {
		for _, d := range f.Decls {
			switch v := d.(type) {
			case *ast.FuncDecl:
				fn, ok := info.Defs[v.Name].(*types.Func)
				if !ok || fn.Exported() {
					if ok && v.Recv != nil && len(v.Recv.List) == 1 && len(v.Recv.List[0].Names) == 1 {
						// exported method: only its receiver and parameter names are recorded
						out = append(out, roleEntry{pkg.PkgPath, roleMethod, recvTypeName(v), v.Name.Name, "", v.Recv.List[0].Names[0].Name, paramNames(v), localsStr(info, v)})
					}
					continue
				}
				sig := fn.Type().(*types.Signature)
				if v.Recv == nil {
					out = append(out, roleEntry{pkg.PkgPath, roleFunc, "", v.Name.Name, sigStr(sig), "", paramNames(v), localsStr(info, v)})
					continue
				}
				rn := ""
				if len(v.Recv.List) == 1 && len(v.Recv.List[0].Names) == 1 {
					rn = v.Recv.List[0].Names[0].Name
				}
				out = append(out, roleEntry{pkg.PkgPath, roleMethod, recvTypeName(v), v.Name.Name, sigStr(sig), rn, paramNames(v), localsStr(info, v)})
			case *ast.GenDecl:
				for _, sp := range v.Specs {
					if vs, ok := sp.(*ast.ValueSpec); ok {
						for _, nm := range vs.Names {
							if o := info.Defs[nm]; o != nil && !o.Exported() && nm.Name != "_" && o.Parent() == pkg.Types.Scope() {
								out = append(out, roleEntry{pkg.PkgPath, roleVar, "", nm.Name, typeStr(o.Type()), "", "", ""})
							}
						}
					}
					ts, ok := sp.(*ast.TypeSpec)
					if !ok {
						continue
					}
					if tn, ok := info.Defs[ts.Name].(*types.TypeName); ok && !tn.Exported() && tn.Parent() == pkg.Types.Scope() {
						out = append(out, roleEntry{pkg.PkgPath, roleType, "", ts.Name.Name, typeShape(tn), "", "", ""})
					}
					st, ok := ts.Type.(*ast.StructType)
					if !ok {
						continue
					}
					for _, fl := range st.Fields.List {
						for _, nm := range fl.Names {
							if o, ok := info.Defs[nm].(*types.Var); ok && !o.Exported() {
								out = append(out, roleEntry{pkg.PkgPath, roleField, ts.Name.Name, nm.Name, typeStr(o.Type()), "", "", ""})
							}
						}
					}
				}
			}
		}
	}
	sort.Slice(out, func(i, j int) bool {
		a, b := out[i], out[j]
		if a.kind != b.kind {
			return a.kind < b.kind
		}
		if a.owner != b.owner {
			return a.owner < b.owner
		}
		return a.name < b.name
	})
	return out
}

// localVars: the variables declared inside the body of fd (closures included), in source order.
func localVars(info *types.Info, fd *ast.FuncDecl) []*ast.Ident {
	var out []*ast.Ident
	if fd.Body == nil {
		return nil
	}
	ast.Inspect(fd.Body, func(n ast.Node) bool {
		id, ok := n.(*ast.Ident)
		if !ok || id.Name == "_" {
			return true
		}
		if v, ok := info.Defs[id].(*types.Var); ok && !v.IsField() {
			out = append(out, id)
		}
		return true
	})
	// the implicit objects of type-switch clauses have no defining identifier; the symbolic
	// variable of `switch x := y.(type)` is in Defs without an object and is skipped above
	sort.SliceStable(out, func(i, j int) bool { return out[i].Pos() < out[j].Pos() })
	return out
}

func localsStr(info *types.Info, fd *ast.FuncDecl) string {
	var parts []string
	for _, id := range localVars(info, fd) {
		parts = append(parts, id.Name+":"+canonStr(typeStr(info.Defs[id].Type())))
	}
	return strings.Join(parts, ";")
}

func paramIdents(fd *ast.FuncDecl) []*ast.Ident {
	var out []*ast.Ident
	for _, fl := range []*ast.FieldList{fd.Type.Params, fd.Type.Results} {
		if fl == nil {
			continue
		}
		for _, f := range fl.List {
			if len(f.Names) == 0 {
				out = append(out, nil)
			}
			out = append(out, f.Names...)
		}
	}
	return out
}

func paramNames(fd *ast.FuncDecl) string {
	var out []string
	for _, id := range paramIdents(fd) {
		if id == nil {
			out = append(out, "")
		} else {
			out = append(out, id.Name)
		}
	}
	return strings.Join(out, ",")
}

func recvTypeName(fd *ast.FuncDecl) string {
	if fd.Recv == nil || len(fd.Recv.List) != 1 {
		return ""
	}
	t := fd.Recv.List[0].Type
	if s, ok := t.(*ast.StarExpr); ok {
		t = s.X
	}
	if ix, ok := t.(*ast.IndexExpr); ok {
		t = ix.X
	}
	if id, ok := t.(*ast.Ident); ok {
		return id.Name
	}
	return ""
}

// substNames: type names of the decorator package inside a type string, read canonically.
var substNames = map[string]string{}
var substPkg = PkgDecorator

func canonStr(s string) string {
	for real, canon := range substNames {
		s = replaceWord(s, substPkg+"."+real, substPkg+"."+canon)
	}
	return s
}

func replaceWord(s, old, new string) string {
	out := ""
	for {
		i := strings.Index(s, old)
		if i < 0 {
			return out + s
		}
		end := i + len(old)
		if end < len(s) && (s[end] == '_' || s[end] >= '0' && s[end] <= '9' || s[end] >= 'a' && s[end] <= 'z' || s[end] >= 'A' && s[end] <= 'Z') {
			out += s[:end]
			s = s[end:]
			continue
		}
		out += s[:i] + new
		s = s[end:]
	}
}

// discoverRenames: the declarations of the decorator package that stand for a recorded name.
func (p *Program) discoverRenames() (map[types.Object]string, []string) {
	rename := map[types.Object]string{}
	var notes []string
	for _, path := range InScope {
		if pkg := p.All[path]; pkg != nil {
			notes = append(notes, discoverIn(pkg, rename)...)
		}
	}
	sort.Strings(notes)
	return rename, notes
}

func discoverIn(pkg *packages.Package, rename map[types.Object]string) []string {
	info := pkg.TypesInfo
	substPkg = pkg.PkgPath
	var notes []string
	var decoratorRoles []roleEntry
	for _, e := range recordedRoles {
		if e.pkg == pkg.PkgPath {
			decoratorRoles = append(decoratorRoles, e)
		}
	}
	type key struct {
		kind  roleKind
		owner string
	}
	recorded := map[key][]roleEntry{}
	for _, e := range decoratorRoles {
		recorded[key{e.kind, e.owner}] = append(recorded[key{e.kind, e.owner}], e)
	}
	substNames = map[string]string{}
	var objOf func(e roleEntry, owner string) types.Object
	objOf = func(e roleEntry, owner string) types.Object {
		switch e.kind {
		case roleFunc, roleType, roleVar:
			return pkg.Types.Scope().Lookup(e.name)
		case roleMethod, roleField:
			tn, _ := pkg.Types.Scope().Lookup(owner).(*types.TypeName)
			if tn == nil {
				return nil
			}
			if e.kind == roleField {
				if st, ok := tn.Type().Underlying().(*types.Struct); ok {
					for i := 0; i < st.NumFields(); i++ {
						if st.Field(i).Name() == e.name {
							return st.Field(i)
						}
					}
				}
				return nil
			}
			obj, _, _ := types.LookupFieldOrMethod(types.NewPointer(tn.Type()), true, pkg.Types, e.name)
			return obj
		}
		return nil
	}
	// types first (to a fixpoint: a shape may mention another renamed type), then the rest with
	// the type names read canonically
	realOwner := map[string]string{} // canonical type name -> name in this tree
	for round := 0; round < 4; round++ {
		changed := false
		now := rolesOf(pkg)
		have := map[string]bool{}
		var extra []roleEntry
		recName := map[string]bool{}
		for _, e := range recorded[key{roleType, ""}] {
			recName[e.name] = true
		}
		for _, e := range now {
			if e.kind == roleType {
				have[e.name] = true
				if !recName[e.name] {
					extra = append(extra, e)
				}
			}
		}
		for _, m := range recorded[key{roleType, ""}] {
			if have[m.name] || realOwner[m.name] != "" {
				continue
			}
			var fits []roleEntry
			for _, x := range extra {
				if canonStr(x.sig) == m.sig && substNames[x.name] == "" {
					fits = append(fits, x)
				}
			}
			if len(fits) == 1 {
				if o := objOf(fits[0], ""); o != nil {
					rename[o] = m.name
					substNames[fits[0].name] = m.name
					realOwner[m.name] = fits[0].name
					notes = append(notes, fmt.Sprintf("type %s is read as %s (same underlying type and methods)", fits[0].name, m.name))
					changed = true
				}
			}
		}
		if !changed {
			break
		}
	}
	now := rolesOf(pkg)
	present := map[key][]roleEntry{}
	for _, e := range now {
		owner := e.owner
		if c, ok := substNames[owner]; ok {
			owner = c
		}
		e.sig = canonStr(e.sig)
		present[key{e.kind, owner}] = append(present[key{e.kind, owner}], e)
	}
	for k, rec := range recorded {
		if k.kind == roleType {
			continue
		}
		owner := k.owner
		if r := realOwner[owner]; r != "" {
			owner = r
		}
		have := map[string]bool{}
		for _, e := range present[k] {
			have[e.name] = true
		}
		recName := map[string]bool{}
		for _, e := range rec {
			recName[e.name] = true
		}
		missing := map[string][]roleEntry{}
		for _, e := range rec {
			if e.sig != "" && !have[e.name] {
				missing[e.sig] = append(missing[e.sig], e)
			}
		}
		extra := map[string][]roleEntry{}
		for _, e := range present[k] {
			if e.sig != "" && !recName[e.name] {
				extra[e.sig] = append(extra[e.sig], e)
			}
		}
		for sig, ms := range missing {
			xs := extra[sig]
			if len(xs) != len(ms) || (len(ms) > 1 && k.kind != roleField) {
				continue // nothing, or no way to tell which is which
			}
			if k.kind == roleField {
				// several fields of one type: recorded order against declaration order
				sort.SliceStable(xs, func(i, j int) bool {
					oi, oj := objOf(xs[i], owner), objOf(xs[j], owner)
					return oi != nil && oj != nil && oi.Pos() < oj.Pos()
				})
			}
			for i, m := range ms {
				if o := objOf(xs[i], owner); o != nil {
					rename[o] = m.name
					pre := k.owner
					if pre != "" {
						pre += "."
					}
					notes = append(notes, fmt.Sprintf("%s%s is read as %s%s (same %s)", pre, xs[i].name, pre, m.name, map[roleKind]string{roleMethod: "receiver and signature", roleFunc: "signature", roleField: "struct and field type", roleVar: "type"}[k.kind]))
				}
			}
		}
	}
	// receivers: the recorded receiver name of the (canonical) method
	recvName := map[string]string{}
	for _, e := range decoratorRoles {
		if e.kind == roleMethod && e.recv != "" {
			recvName[e.owner+"."+e.name] = e.recv
		}
	}
	for _, f := range pkg.Syntax {
		for _, d := range f.Decls {
			fd, ok := d.(*ast.FuncDecl)
			if !ok || fd.Recv == nil || len(fd.Recv.List) != 1 || len(fd.Recv.List[0].Names) != 1 || fd.Body == nil {
				continue
			}
			name := fd.Name.Name
			if o := info.Defs[fd.Name]; o != nil && rename[o] != "" {
				name = rename[o]
			}
			owner := recvTypeName(fd)
			if c, ok := substNames[owner]; ok {
				owner = c
			}
			want := recvName[owner+"."+name]
			rid := fd.Recv.List[0].Names[0]
			if want == "" || rid.Name == want || rid.Name == "_" {
				continue
			}
			// not if the wanted name is in use inside the method
			clash := false
			ast.Inspect(fd, func(n ast.Node) bool {
				if id, ok := n.(*ast.Ident); ok && id.Name == want {
					if o := info.Uses[id]; o != nil {
						if v, isVar := o.(*types.Var); !isVar || !v.IsField() {
							clash = true
						}
					}
					if o := info.Defs[id]; o != nil {
						if v, isVar := o.(*types.Var); !isVar || !v.IsField() {
							clash = true
						}
					}
				}
				return true
			})
			if ro := info.Defs[rid]; ro != nil && !clash {
				rename[ro] = want
			}
		}
	}
	// parameters and named results: the recorded names of the (canonical) function
	recParams := map[string]string{}
	for _, e := range decoratorRoles {
		if e.kind == roleMethod || e.kind == roleFunc {
			recParams[e.owner+"."+e.name] = e.params
		}
	}
	for _, f := range pkg.Syntax {
		for _, d := range f.Decls {
			fd, ok := d.(*ast.FuncDecl)
			if !ok || fd.Body == nil {
				continue
			}
			name := fd.Name.Name
			if o := info.Defs[fd.Name]; o != nil && rename[o] != "" {
				name = rename[o]
			}
			owner := recvTypeName(fd)
			if c, ok := substNames[owner]; ok {
				owner = c
			}
			want, known := recParams[owner+"."+name]
			if !known || want == paramNames(fd) {
				continue
			}
			ws := strings.Split(want, ",")
			ids := paramIdents(fd)
			if len(ws) != len(ids) {
				continue
			}
			for i, id := range ids {
				if id == nil || ws[i] == "" || ws[i] == "_" || id.Name == "_" || id.Name == ws[i] {
					continue
				}
				w := ws[i]
				clash := false
				ast.Inspect(fd, func(n ast.Node) bool {
					if x, ok := n.(*ast.Ident); ok && x.Name == w {
						for _, o := range []types.Object{info.Uses[x], info.Defs[x]} {
							if o == nil {
								continue
							}
							if v, isVar := o.(*types.Var); !isVar || !v.IsField() {
								clash = true
							}
						}
					}
					return true
				})
				if o := info.Defs[id]; o != nil && !clash {
					rename[o] = w
				}
			}
		}
	}
	// local variables: per type, when the function declares as many locals of that type as the
	// recorded one did, they are the recorded ones in source order
	recLocals := map[string]string{}
	for _, e := range decoratorRoles {
		if e.kind == roleMethod || e.kind == roleFunc {
			recLocals[e.owner+"."+e.name] = e.locals
		}
	}
	for _, f := range pkg.Syntax {
		for _, d := range f.Decls {
			fd, ok := d.(*ast.FuncDecl)
			if !ok || fd.Body == nil {
				continue
			}
			name := fd.Name.Name
			if o := info.Defs[fd.Name]; o != nil && rename[o] != "" {
				name = rename[o]
			}
			owner := recvTypeName(fd)
			if c, ok := substNames[owner]; ok {
				owner = c
			}
			want, known := recLocals[owner+"."+name]
			if !known || want == "" || want == localsStr(info, fd) {
				continue
			}
			byType := map[string][]string{}
			for _, part := range strings.Split(want, ";") {
				if i := strings.Index(part, ":"); i > 0 {
					byType[part[i+1:]] = append(byType[part[i+1:]], part[:i])
				}
			}
			haveByType := map[string][]*ast.Ident{}
			for _, id := range localVars(info, fd) {
				t := canonStr(typeStr(info.Defs[id].Type()))
				haveByType[t] = append(haveByType[t], id)
			}
			// names in use in the function (a renamed local must not collide)
			for t, all := range haveByType {
				// recorded names that are absent, locals whose name is not a recorded one: when
				// there are as many of the one as of the other, they correspond in source order
				haveName := map[string]int{}
				for _, id := range all {
					haveName[id.Name]++
				}
				recCount := map[string]int{}
				for _, w := range byType[t] {
					recCount[w]++
				}
				var ws []string
				for _, w := range byType[t] {
					if haveName[w] == 0 {
						ws = append(ws, w)
					}
				}
				var ids []*ast.Ident
				for _, id := range all {
					if recCount[id.Name] == 0 {
						ids = append(ids, id)
					}
				}
				if len(ws) != len(ids) || len(all) != len(byType[t]) {
					continue
				}
				for i, id := range ids {
					w := ws[i]
					clash := false
					ast.Inspect(fd, func(n ast.Node) bool {
						if x, ok := n.(*ast.Ident); ok && x.Name == w {
							for _, o := range []types.Object{info.Uses[x], info.Defs[x]} {
								if o == nil || rename[o] != "" {
									continue
								}
								if v, isVar := o.(*types.Var); !isVar || !v.IsField() {
									clash = true
								}
							}
						}
						return true
					})
					o := info.Defs[id]
					if o == nil || clash {
						continue
					}
					// another local of this function that is being given the same name, in a
					// scope that overlaps this one
					for o2, w2 := range rename {
						if w2 != w || o2 == o || o2.Parent() == nil || o.Parent() == nil {
							continue
						}
						if o2.Pos() < fd.Pos() || o2.Pos() > fd.End() {
							continue
						}
						if o.Parent() == o2.Parent() || o.Parent().Contains(o2.Pos()) || o2.Parent().Contains(o.Pos()) {
							clash = true
						}
					}
					if !clash {
						rename[o] = w
					}
				}
			}
		}
	}
	return notes
}

// canonOverlay: the files of the decorator package with the identifiers that denote a renamed
// object replaced by the recorded name (byte-exact, found through Defs/Uses).
func (p *Program) canonOverlay(rename map[types.Object]string) map[string][]byte {
	type edit struct {
		off, n int
		text   string
	}
	edits := map[string][]edit{}
	for _, path := range InScope {
		pkg := p.All[path]
		if pkg == nil {
			continue
		}
		info := pkg.TypesInfo
		for _, f := range pkg.Syntax {
			ast.Inspect(f, func(n ast.Node) bool {
				id, ok := n.(*ast.Ident)
				if !ok {
					return true
				}
				o := info.Defs[id]
				if o == nil {
					o = info.Uses[id]
				}
				nn, ok := rename[o]
				if !ok || o == nil || nn == id.Name {
					return true
				}
				pos := p.Fset.Position(id.Pos())
				edits[pos.Filename] = append(edits[pos.Filename], edit{pos.Offset, len(id.Name), nn})
				return true
			})
		}
	}
	out := map[string][]byte{}
	for name, es := range edits {
		src, ok := p.Overlay[name]
		if !ok {
			b, err := os.ReadFile(name)
			if err != nil {
				return nil
			}
			src = b
		}
		sort.Slice(es, func(i, j int) bool { return es[i].off > es[j].off })
		buf := append([]byte{}, src...)
		for _, e := range es {
			if e.off+e.n > len(buf) {
				return nil
			}
			buf = append(buf[:e.off], append([]byte(e.text), buf[e.off+e.n:]...)...)
		}
		out[name] = buf
	}
	return out
}
