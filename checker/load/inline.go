package load

import (
	"fmt"
	"go/ast"
	"go/token"
	"go/types"
	"os"
	"sort"
	"strings"

	"golang.org/x/tools/go/packages"
)

// Inlining of helpers the rules have never seen.
//
// The rules anchor on the functions of the tree they were written against (the recorded role
// table). A maintainer who extracts a few statements into a new helper — a closure inside the
// function, or a new unexported function or method — does not change what the code does, but the
// statements are no longer where the rules read them. Before the rules run, calls of such *new*
// helpers are replaced by the helper's body (source-to-source, through an overlay and another
// load, like the canonical names), so that the rules read the same statements as before the
// extraction. Only two forms are inlined, both of which keep the control flow structured:
//
//   - a helper without results and without return statements, called as a statement: the call
//     becomes a block holding the body, parameters replaced by the (side-effect free) arguments;
//   - a helper with results whose failure returns hand back a constant (nil / false / a non-nil
//     error) and whose single success return is its last statement, called as
//     `v[, w] := h(a)` directly followed by `if v == nil | !ok | err != nil { …; return }`: the body
//     replaces the call, every failure return becomes a copy of the caller's failure branch, the
//     success return becomes the assignment.
//
// Everything else is left alone; if the rewritten sources do not type-check, the tree is analysed
// as it is. //line directives keep the reported positions on the lines of the original files.

// Inlined lists what was inlined, for the evidence files.
var Inlined []string

type inlEdit struct {
	off, end int
	text     string
}

func applyEdits(src []byte, base int, es []inlEdit) string {
	sort.Slice(es, func(i, j int) bool { return es[i].off > es[j].off })
	buf := append([]byte{}, src...)
	for _, e := range es {
		o, n := e.off-base, e.end-base
		if o < 0 || n > len(buf) || o > n {
			continue
		}
		buf = append(buf[:o], append([]byte(e.text), buf[n:]...)...)
	}
	return string(buf)
}

func simpleArg(info *types.Info, x ast.Expr) bool {
	switch v := x.(type) {
	case *ast.Ident, *ast.BasicLit:
		return true
	case *ast.ParenExpr:
		return simpleArg(info, v.X)
	case *ast.SelectorExpr:
		return simpleArg(info, v.X)
	case *ast.StarExpr:
		return simpleArg(info, v.X)
	case *ast.IndexExpr:
		return simpleArg(info, v.X) && simpleArg(info, v.Index)
	case *ast.SliceExpr:
		for _, p := range []ast.Expr{v.Low, v.High, v.Max} {
			if p != nil && !simpleArg(info, p) {
				return false
			}
		}
		return simpleArg(info, v.X)
	case *ast.TypeAssertExpr:
		return v.Type != nil && simpleArg(info, v.X)
	case *ast.UnaryExpr:
		if v.Op == token.ARROW {
			return false
		}
		if v.Op == token.AND {
			switch ast.Unparen(v.X).(type) {
			case *ast.Ident, *ast.SelectorExpr, *ast.IndexExpr:
			default:
				return false
			}
		}
		return simpleArg(info, v.X)
	case *ast.BinaryExpr:
		return simpleArg(info, v.X) && simpleArg(info, v.Y)
	case *ast.CallExpr:
		if tv, ok := info.Types[v.Fun]; ok && tv.IsType() && len(v.Args) == 1 {
			return simpleArg(info, v.Args[0])
		}
		if id, ok := v.Fun.(*ast.Ident); ok && (id.Name == "len" || id.Name == "cap") && len(v.Args) == 1 {
			if _, isB := info.Uses[id].(*types.Builtin); isB {
				return simpleArg(info, v.Args[0])
			}
		}
	}
	return false
}

func needsParens(x ast.Expr) bool {
	switch x.(type) {
	case *ast.Ident, *ast.BasicLit, *ast.SelectorExpr, *ast.IndexExpr, *ast.CallExpr, *ast.ParenExpr, *ast.TypeAssertExpr, *ast.SliceExpr:
		return false
	}
	return true
}

type inliner struct {
	p     *Program
	pkg   *packages.Package
	info  *types.Info
	src   map[string][]byte
	edits map[string][]inlEdit
	notes []string
	seq   int
}

func (in *inliner) source(name string) []byte {
	if b, ok := in.src[name]; ok {
		return b
	}
	b, ok := in.p.Overlay[name]
	if !ok {
		var err error
		if b, err = os.ReadFile(name); err != nil {
			b = nil
		}
	}
	in.src[name] = b
	return b
}

func (in *inliner) off(pos token.Pos) int { return in.p.Fset.Position(pos).Offset }
func (in *inliner) text(file string, from, to token.Pos) string {
	src := in.source(file)
	a, b := in.off(from), in.off(to)
	if src == nil || a < 0 || b > len(src) || a > b {
		return ""
	}
	return string(src[a:b])
}

// callee body description shared by the two forms
type inlBody struct {
	file   string
	body   *ast.BlockStmt
	params []types.Object // receiver first (may be nil entries for blank/unnamed)
	scope  ast.Node       // the node whose range holds the helper's own declarations (FuncDecl or FuncLit)
	name   string
	isLit  bool
}

// bodyOK: restrictions common to both forms; returns the objects declared inside the body.
func (in *inliner) bodyOK(b *inlBody) (locals map[types.Object]bool, ok bool) {
	locals = map[types.Object]bool{}
	ok = true
	ast.Inspect(b.body, func(n ast.Node) bool {
		switch v := n.(type) {
		case *ast.DeferStmt, *ast.GoStmt, *ast.LabeledStmt, *ast.SelectStmt:
			ok = false
		case *ast.BranchStmt:
			if v.Label != nil || v.Tok == token.GOTO {
				ok = false
			}
		case *ast.Ident:
			if o := in.info.Defs[v]; o != nil {
				locals[o] = true
			}
		}
		return ok
	})
	// implicit objects (type switch symbols) are not renamed: refuse bodies that have them
	ast.Inspect(b.body, func(n ast.Node) bool {
		if ts, isTS := n.(*ast.TypeSwitchStmt); isTS {
			if _, isAssign := ts.Assign.(*ast.AssignStmt); isAssign {
				ok = false
			}
		}
		return ok
	})
	return
}

// substitution edits for parameters: every use of a parameter inside the body is replaced by the
// argument text. Refuses when a parameter is written, when an argument is not side-effect free,
// when the body writes something an argument mentions, or when a name declared in the body also
// occurs in an argument.
func (in *inliner) paramEdits(b *inlBody, callerFile string, args []ast.Expr, locals map[types.Object]bool) ([]inlEdit, bool) {
	if len(args) != len(b.params) {
		return nil, false
	}
	argNames := map[string]bool{}
	argObjs := map[types.Object]bool{}
	for _, a := range args {
		if a == nil {
			continue
		}
		if !simpleArg(in.info, a) {
			return nil, false
		}
		ast.Inspect(a, func(n ast.Node) bool {
			if id, ok := n.(*ast.Ident); ok {
				argNames[id.Name] = true
				if o := in.info.Uses[id]; o != nil {
					argObjs[o] = true
				}
			}
			return true
		})
	}
	for o := range locals {
		if argNames[o.Name()] {
			return nil, false
		}
	}
	isParam := map[types.Object]int{}
	for i, p := range b.params {
		if p != nil {
			isParam[p] = i
		}
	}
	refType := func(t types.Type) bool {
		switch t.Underlying().(type) {
		case *types.Pointer, *types.Map, *types.Slice, *types.Chan, *types.Signature, *types.Interface:
			return true
		}
		return false
	}
	okAll := true
	rootOf := func(x ast.Expr) *ast.Ident {
		for {
			switch v := ast.Unparen(x).(type) {
			case *ast.Ident:
				return v
			case *ast.SelectorExpr:
				x = v.X
			case *ast.IndexExpr:
				x = v.X
			case *ast.StarExpr:
				x = v.X
			case *ast.SliceExpr:
				x = v.X
			default:
				return nil
			}
		}
	}
	written := func(lhs ast.Expr) {
		id := rootOf(lhs)
		if id == nil {
			return
		}
		o := in.info.Uses[id]
		if o == nil {
			return
		}
		if _, isP := isParam[o]; isP {
			// the parameter itself, or a field of a parameter passed by value
			if ast.Unparen(lhs) == ast.Expr(id) || !refType(o.Type()) {
				okAll = false
			}
			return
		}
		if argObjs[o] && !locals[o] {
			okAll = false // the body writes a variable an argument reads
		}
	}
	ast.Inspect(b.body, func(n ast.Node) bool {
		switch v := n.(type) {
		case *ast.AssignStmt:
			for _, l := range v.Lhs {
				written(l)
			}
		case *ast.IncDecStmt:
			written(v.X)
		case *ast.RangeStmt:
			if v.Tok == token.ASSIGN {
				if v.Key != nil {
					written(v.Key)
				}
				if v.Value != nil {
					written(v.Value)
				}
			}
		case *ast.UnaryExpr:
			if v.Op == token.AND {
				if id, ok := ast.Unparen(v.X).(*ast.Ident); ok {
					if _, isP := isParam[in.info.Uses[id]]; isP {
						okAll = false
					}
				}
			}
		}
		return okAll
	})
	if !okAll {
		return nil, false
	}
	var es []inlEdit
	selX := map[*ast.Ident]bool{} // p in p.F
	ast.Inspect(b.body, func(n ast.Node) bool {
		if se, ok := n.(*ast.SelectorExpr); ok {
			if id, ok := se.X.(*ast.Ident); ok {
				selX[id] = true
			}
		}
		return true
	})
	ast.Inspect(b.body, func(n ast.Node) bool {
		id, ok := n.(*ast.Ident)
		if !ok {
			return true
		}
		i, isP := isParam[in.info.Uses[id]]
		if !isP {
			return true
		}
		arg := ast.Unparen(args[i])
		// p.F with the argument &x is x.F
		if u, isAddr := arg.(*ast.UnaryExpr); isAddr && u.Op == token.AND && selX[id] {
			arg = ast.Unparen(u.X)
		}
		t := in.text(callerFile, arg.Pos(), arg.End())
		if t == "" {
			okAll = false
			return false
		}
		if needsParens(arg) {
			t = "(" + t + ")"
		}
		es = append(es, inlEdit{in.off(id.Pos()), in.off(id.End()), t})
		return true
	})
	return es, okAll
}

// freeVarsVisible: every identifier of the body that refers to something declared outside the
// helper means the same thing at the call site.
func (in *inliner) freeVarsVisible(b *inlBody, at token.Pos, locals map[types.Object]bool) bool {
	inner := in.pkg.Types.Scope().Innermost(at)
	if inner == nil {
		return false
	}
	isParam := map[types.Object]bool{}
	for _, p := range b.params {
		if p != nil {
			isParam[p] = true
		}
	}
	ok := true
	sel := map[*ast.Ident]bool{} // x.Sel is not looked up in a scope
	ast.Inspect(b.body, func(n ast.Node) bool {
		if se, isSel := n.(*ast.SelectorExpr); isSel {
			sel[se.Sel] = true
		}
		return true
	})
	ast.Inspect(b.body, func(n ast.Node) bool {
		id, isID := n.(*ast.Ident)
		if !isID || !ok {
			return ok
		}
		o := in.info.Uses[id]
		if o == nil || locals[o] || isParam[o] || sel[id] {
			return true
		}
		if v, isVar := o.(*types.Var); isVar && v.IsField() {
			return true
		}
		if _, isFunc := o.(*types.Func); isFunc && o.Parent() == nil {
			return true // a method
		}
		if o.Parent() == types.Universe {
			_, found := inner.LookupParent(id.Name, at)
			if found != o {
				ok = false
			}
			return true
		}
		_, found := inner.LookupParent(id.Name, at)
		switch {
		case found == o:
		case found != nil:
			pa, isA := found.(*types.PkgName)
			pb, isB := o.(*types.PkgName)
			if !(isA && isB && pa.Imported() == pb.Imported()) {
				ok = false
			}
		default:
			ok = false
		}
		return true
	})
	return ok
}

func (in *inliner) line(pos token.Pos) int { return in.p.Fset.Position(pos).Line }

// hasReturn: a return statement in the body outside nested function literals; a single bare return
// as last statement is reported separately.
func returnsOf(body *ast.BlockStmt) []*ast.ReturnStmt {
	var out []*ast.ReturnStmt
	ast.Inspect(body, func(n ast.Node) bool {
		if _, isLit := n.(*ast.FuncLit); isLit {
			return false
		}
		if rs, ok := n.(*ast.ReturnStmt); ok {
			out = append(out, rs)
		}
		return true
	})
	return out
}

// inlineVoid: the replacement text for a statement call of a result-less helper.
func (in *inliner) inlineVoid(b *inlBody, callerFile string, call *ast.CallExpr, stmt ast.Stmt, args []ast.Expr) bool {
	locals, ok := in.bodyOK(b)
	if !ok {
		return false
	}
	rets := returnsOf(b.body)
	var es []inlEdit
	closers := 0
	if len(rets) > 0 {
		// allowed: a bare return as last statement, and guard clauses at the top level of the
		// body — `if c { …; return }` without else — which become `if c { … } else { <rest> }`
		accounted := 0
		for i, st := range b.body.List {
			if rs, ok := st.(*ast.ReturnStmt); ok {
				if i != len(b.body.List)-1 || len(rs.Results) != 0 {
					return false
				}
				es = append(es, inlEdit{in.off(rs.Pos()), in.off(rs.End()), ""})
				accounted++
				continue
			}
			is, ok := st.(*ast.IfStmt)
			if !ok {
				continue
			}
			inner := returnsOf(is.Body)
			if is.Else != nil {
				if len(inner) > 0 || len(returnsOf(&ast.BlockStmt{List: []ast.Stmt{is.Else}})) > 0 {
					return false
				}
				continue
			}
			if len(inner) == 0 {
				continue
			}
			lastIn := is.Body.List[len(is.Body.List)-1]
			if len(inner) != 1 || ast.Stmt(inner[0]) != lastIn || len(inner[0].Results) != 0 {
				return false
			}
			es = append(es, inlEdit{in.off(lastIn.Pos()), in.off(lastIn.End()), ""})
			if i < len(b.body.List)-1 {
				es = append(es, inlEdit{in.off(is.End()), in.off(is.End()), " else {"})
				closers++
			}
			accounted++
		}
		if accounted != len(rets) {
			return false // a return somewhere deeper
		}
	}
	pe, ok := in.paramEdits(b, callerFile, args, locals)
	if !ok || !in.freeVarsVisible(b, call.Pos(), locals) {
		return false
	}
	es = append(es, pe...)
	// the statements are put in place of the call without a block around them (rules that read
	// the statement list of the caller find them there); the helper's own variables get names
	// that cannot clash with the caller's
	es = append(es, in.renameLocals(b, locals)...)
	src := in.source(b.file)
	lo, hi := in.off(b.body.Lbrace)+1, in.off(b.body.Rbrace)
	if src == nil || lo > hi || hi > len(src) {
		return false
	}
	bodyText := applyEdits(src[lo:hi], lo, es) + strings.Repeat("}", closers)
	text := fmt.Sprintf("\n//line %s:%d\n%s\n//line %s:%d\n", b.file, in.line(b.body.Lbrace), bodyText, callerFile, in.line(stmt.End()))
	in.edits[callerFile] = append(in.edits[callerFile], inlEdit{in.off(stmt.Pos()), in.off(stmt.End()), text})
	in.notes = append(in.notes, fmt.Sprintf("%s inlined at %s:%d", b.name, relName(in.p, callerFile), in.line(stmt.Pos())))
	return true
}

func relName(p *Program, file string) string {
	return strings.TrimPrefix(strings.TrimPrefix(file, p.RepoDir), "/")
}

func isIdentNamed(x ast.Expr, name string) bool {
	id, ok := ast.Unparen(x).(*ast.Ident)
	return ok && id.Name == name
}

// inlineGuarded: `lhs := h(args)` followed by `if <failure test on one lhs variable> { … return }`.
func (in *inliner) inlineGuarded(b *inlBody, callerFile string, call *ast.CallExpr, s1 *ast.AssignStmt, s2 *ast.IfStmt, args []ast.Expr) bool {
	if s2 == nil || s2.Init != nil || s2.Else != nil || len(s2.Body.List) == 0 || len(s2.Body.List) > 2 {
		return dbgFalse(1)
	}
	var lhs []*ast.Ident
	for _, l := range s1.Lhs {
		id, ok := l.(*ast.Ident)
		if !ok {
			return dbgFalse(2)
		}
		lhs = append(lhs, id)
	}
	// which variable is tested, and how
	t, form := -1, ""
	switch c := ast.Unparen(s2.Cond).(type) {
	case *ast.UnaryExpr:
		if c.Op == token.NOT {
			for i, id := range lhs {
				if isIdentNamed(c.X, id.Name) {
					t, form = i, "ok"
				}
			}
		}
	case *ast.BinaryExpr:
		if isIdentNamed(c.Y, "nil") && (c.Op == token.EQL || c.Op == token.NEQ) {
			for i, id := range lhs {
				if isIdentNamed(c.X, id.Name) {
					t = i
					if c.Op == token.EQL {
						form = "nil"
					} else {
						form = "err"
					}
				}
			}
		}
	}
	if t < 0 || lhs[t].Name == "_" {
		return dbgFalse(3)
	}
	// the failure branch ends in a return (or panic), is short, single-line, and mentions none of
	// the assigned variables (the error variable excepted in the err form)
	switch last := s2.Body.List[len(s2.Body.List)-1].(type) {
	case *ast.ReturnStmt:
	case *ast.ExprStmt:
		c, ok := last.X.(*ast.CallExpr)
		if !ok || !isIdentNamed(c.Fun, "panic") {
			return dbgFalse(4)
		}
	default:
		return dbgFalse(5)
	}
	var sTexts []string
	mentionsErr := false
	for _, st := range s2.Body.List {
		tx := in.text(callerFile, st.Pos(), st.End())
		if tx == "" || strings.Contains(tx, "\n") {
			return dbgFalse(6)
		}
		bad := false
		ast.Inspect(st, func(n ast.Node) bool {
			if id, ok := n.(*ast.Ident); ok {
				for i, l := range lhs {
					if id.Name == l.Name && l.Name != "_" {
						if i == t && form == "err" {
							mentionsErr = true
						} else {
							bad = true
						}
					}
				}
			}
			return true
		})
		if bad {
			return dbgFalse(7)
		}
		sTexts = append(sTexts, tx)
	}
	locals, ok := in.bodyOK(b)
	if !ok || len(b.body.List) == 0 {
		return dbgFalse(8)
	}
	rets := returnsOf(b.body)
	final, ok := b.body.List[len(b.body.List)-1].(*ast.ReturnStmt)
	if !ok {
		return dbgFalse(9)
	}
	var es []inlEdit
	for _, rs := range rets {
		if len(rs.Results) != len(lhs) {
			return dbgFalse(10)
		}
		r := ast.Unparen(rs.Results[t])
		failure := false
		switch form {
		case "nil":
			failure = isIdentNamed(r, "nil")
		case "ok":
			failure = isIdentNamed(r, "false")
			if !failure && !isIdentNamed(r, "true") && rs != final {
				return dbgFalse(11)
			}
		case "err":
			failure = !isIdentNamed(r, "nil")
		}
		if rs == final {
			if failure {
				return dbgFalse(12)
			}
			continue
		}
		if !failure {
			return dbgFalse(13) // a second success return
		}
		// inside a loop of the helper a copied `return` still leaves the caller: fine
		rep := "{ " + strings.Join(sTexts, "; ") + " }"
		if mentionsErr {
			rep = "{ " + lhs[t].Name + " := " + in.text(b.file, rs.Results[t].Pos(), rs.Results[t].End()) + "; " + strings.Join(sTexts, "; ") + " }"
		}
		es = append(es, inlEdit{in.off(rs.Pos()), in.off(rs.End()), rep})
	}
	pe, ok := in.paramEdits(b, callerFile, args, locals)
	if !ok || !in.freeVarsVisible(b, call.Pos(), locals) {
		return dbgFalse(14)
	}
	// the helper's own variables get names that cannot clash with the caller's
	es = append(es, in.renameLocals(b, locals)...)
	es = append(es, pe...)
	src := in.source(b.file)
	lo, hi, end := in.off(b.body.Lbrace)+1, in.off(final.Pos()), in.off(final.End())
	if src == nil || lo > hi || end > len(src) {
		return dbgFalse(15)
	}
	var bodyEs, retEs []inlEdit
	for _, e := range es {
		if e.off >= hi {
			retEs = append(retEs, e)
		} else {
			bodyEs = append(bodyEs, e)
		}
	}
	bodyText := applyEdits(src[lo:hi], lo, bodyEs)
	// the success values
	var vals []string
	for _, r := range final.Results {
		var sub []inlEdit
		for _, e := range retEs {
			if e.off >= in.off(r.Pos()) && e.end <= in.off(r.End()) {
				sub = append(sub, e)
			}
		}
		vals = append(vals, applyEdits(src[in.off(r.Pos()):in.off(r.End())], in.off(r.Pos()), sub))
	}
	var names, blanks []string
	for _, l := range lhs {
		names = append(names, l.Name)
		if l.Name != "_" {
			blanks = append(blanks, l.Name)
		}
	}
	assign := strings.Join(names, ", ") + " " + s1.Tok.String() + " " + strings.Join(vals, ", ")
	if len(blanks) > 0 {
		assign += "; " + strings.Repeat("_, ", len(blanks)-1) + "_ = " + strings.Join(blanks, ", ")
	}
	// when the success return hands back the constant that passes the caller's test, the test goes
	dropTest := false
	switch form {
	case "ok":
		dropTest = isIdentNamed(final.Results[t], "true")
	case "err":
		dropTest = isIdentNamed(final.Results[t], "nil")
	}
	endPos := s1.End()
	if dropTest {
		endPos = s2.End()
	}
	text := fmt.Sprintf("\n//line %s:%d\n%s\n//line %s:%d\n%s", b.file, in.line(b.body.Lbrace), bodyText, callerFile, in.line(s1.Pos()), assign)
	if dropTest {
		text += fmt.Sprintf("\n//line %s:%d\n", callerFile, in.line(s2.End()))
	}
	in.edits[callerFile] = append(in.edits[callerFile], inlEdit{in.off(s1.Pos()), in.off(endPos), text})
	in.notes = append(in.notes, fmt.Sprintf("%s inlined at %s:%d (failure returns become the caller's failure branch)", b.name, relName(in.p, callerFile), in.line(s1.Pos())))
	return true
}

// inlineIfInit: `if v, ok := h(a); ok { BODY }` (no else) where h is a new helper of the shape
//
//	func h(p …) (T, bool) { PRE…; if c { return <anything>, false }; MID…; return E, true }
//
// becomes `{ PRE…; if !(c) { MID…; v := E; BODY } }`: the body runs exactly when the helper reports
// success, with v bound to its first result. BODY must not mention ok.
func (in *inliner) inlineIfInit(fd *ast.FuncDecl, s *ast.IfStmt, declOf map[types.Object]*ast.FuncDecl, isNew func(*ast.FuncDecl) bool,
	helperBody func(*ast.FuncDecl, *ast.CallExpr) (*inlBody, []ast.Expr, bool)) *ast.FuncDecl {
	init, ok := s.Init.(*ast.AssignStmt)
	if !ok || s.Else != nil || init.Tok != token.DEFINE || len(init.Lhs) != 2 || len(init.Rhs) != 1 {
		return nil
	}
	vID, ok1 := init.Lhs[0].(*ast.Ident)
	okID, ok2 := init.Lhs[1].(*ast.Ident)
	cond, ok3 := ast.Unparen(s.Cond).(*ast.Ident)
	if !ok1 || !ok2 || !ok3 || cond.Name != okID.Name || okID.Name == "_" {
		return nil
	}
	call, ok := ast.Unparen(init.Rhs[0]).(*ast.CallExpr)
	if !ok {
		return nil
	}
	hd := declOf[calleeFuncObj(in.info, call)]
	if hd == nil || hd == fd || !isNew(hd) || hd.Type.Results == nil {
		return nil
	}
	b, args, ok := helperBody(hd, call)
	if !ok {
		return nil
	}
	locals, ok := in.bodyOK(b)
	if !ok {
		return nil
	}
	n := len(hd.Body.List)
	if n < 2 {
		return nil
	}
	final, ok := hd.Body.List[n-1].(*ast.ReturnStmt)
	if !ok || len(final.Results) != 2 || !isIdentNamed(final.Results[1], "true") {
		return nil
	}
	gi := -1
	for i, st := range hd.Body.List[:n-1] {
		if is, ok := st.(*ast.IfStmt); ok && len(returnsOf(is.Body)) > 0 {
			if gi >= 0 || is.Init != nil || is.Else != nil || len(is.Body.List) != 1 {
				return nil
			}
			rs, ok := is.Body.List[0].(*ast.ReturnStmt)
			if !ok || len(rs.Results) != 2 || !isIdentNamed(rs.Results[1], "false") {
				return nil
			}
			gi = i
		} else if len(returnsOf(&ast.BlockStmt{List: []ast.Stmt{st}})) > 0 {
			return nil
		}
	}
	if gi < 0 {
		return nil
	}
	guard := hd.Body.List[gi].(*ast.IfStmt)
	// BODY must not mention ok
	bad := false
	okObj := in.info.Defs[okID]
	ast.Inspect(s.Body, func(m ast.Node) bool {
		if id, ok := m.(*ast.Ident); ok && in.info.Uses[id] == okObj {
			bad = true
		}
		return true
	})
	if bad {
		return nil
	}
	callerFile := in.p.Fset.Position(fd.Pos()).Filename
	pe, ok := in.paramEdits(b, callerFile, args, locals)
	if !ok || !in.freeVarsVisible(b, call.Pos(), locals) {
		return nil
	}
	es := append(pe, in.renameLocals(b, locals)...)
	src := in.source(b.file)
	csrc := in.source(callerFile)
	if src == nil || csrc == nil {
		return nil
	}
	seg := func(from, to token.Pos) string {
		lo, hi := in.off(from), in.off(to)
		if lo > hi || hi > len(src) {
			return ""
		}
		var sub []inlEdit
		for _, e := range es {
			if e.off >= lo && e.end <= hi {
				sub = append(sub, e)
			}
		}
		return applyEdits(src[lo:hi], lo, sub)
	}
	pre := seg(hd.Body.Lbrace+1, guard.Pos())
	condText := seg(guard.Cond.Pos(), guard.Cond.End())
	mid := seg(guard.End(), final.Pos())
	val := seg(final.Results[0].Pos(), final.Results[0].End())
	if condText == "" || val == "" {
		return nil
	}
	// the negated guard in its plain spelling where there is one (x == nil → x != nil)
	neg := "!(" + condText + ")"
	if be, ok := ast.Unparen(guard.Cond).(*ast.BinaryExpr); ok {
		flip := map[token.Token]string{token.EQL: "!=", token.NEQ: "==", token.LSS: ">=", token.GEQ: "<", token.GTR: "<=", token.LEQ: ">"}
		if op, ok := flip[be.Op]; ok {
			neg = seg(be.X.Pos(), be.X.End()) + " " + op + " " + seg(be.Y.Pos(), be.Y.End())
		}
	}
	bodyText := string(csrc[in.off(s.Body.Lbrace)+1 : in.off(s.Body.Rbrace)])
	vdef := ""
	if vID.Name != "_" {
		vdef = fmt.Sprintf("%s := %s; _ = %s", vID.Name, val, vID.Name)
	}
	text := fmt.Sprintf("{\n//line %s:%d\n%s\nif %s {%s\n%s\n//line %s:%d\n%s}\n}\n//line %s:%d\n",
		b.file, in.line(hd.Body.Lbrace), pre, neg, mid, vdef, callerFile, in.line(s.Body.Lbrace), bodyText, callerFile, in.line(s.End()))
	in.edits[callerFile] = append(in.edits[callerFile], inlEdit{in.off(s.Pos()), in.off(s.End()), text})
	in.notes = append(in.notes, fmt.Sprintf("%s (value, ok) inlined at %s:%d", b.name, relName(in.p, callerFile), in.line(s.Pos())))
	return hd
}

// inlineNilWrapper: `out.F = h(a)` where h is a new helper of the shape
//
//	func h(p T) U { if p == nil { return nil }; return E }
//
// and out is a variable of this function that was allocated by `out := &S{…}` without F and whose F
// has not been assigned before in this statement list: the statement becomes
// `if a != nil { out.F = E[p→a] }` (F is nil until then, so the nil case stores nothing new).
func (in *inliner) inlineNilWrapper(fd *ast.FuncDecl, list []ast.Stmt, i int, s *ast.AssignStmt, declOf map[types.Object]*ast.FuncDecl, isNew func(*ast.FuncDecl) bool,
	helperBody func(*ast.FuncDecl, *ast.CallExpr) (*inlBody, []ast.Expr, bool)) bool {
	if s.Tok != token.ASSIGN || len(s.Lhs) != 1 || len(s.Rhs) != 1 {
		return false
	}
	call, ok := ast.Unparen(s.Rhs[0]).(*ast.CallExpr)
	if !ok || len(call.Args) != 1 {
		return false
	}
	hd := declOf[calleeFuncObj(in.info, call)]
	if hd == nil || hd == fd || !isNew(hd) || hd.Recv != nil || hd.Type.Results == nil || len(hd.Type.Results.List) != 1 || len(hd.Body.List) != 2 {
		return false
	}
	b, args, ok := helperBody(hd, call)
	if !ok || len(b.params) != 1 || b.params[0] == nil {
		return false
	}
	guard, ok := hd.Body.List[0].(*ast.IfStmt)
	ret, ok2 := hd.Body.List[1].(*ast.ReturnStmt)
	if !ok || !ok2 || guard.Init != nil || guard.Else != nil || len(guard.Body.List) != 1 || len(ret.Results) != 1 {
		return false
	}
	gr, ok := guard.Body.List[0].(*ast.ReturnStmt)
	if !ok || len(gr.Results) != 1 || !isIdentNamed(gr.Results[0], "nil") {
		return false
	}
	be, ok := ast.Unparen(guard.Cond).(*ast.BinaryExpr)
	if !ok || be.Op != token.EQL || !isIdentNamed(be.Y, "nil") {
		return false
	}
	pid, ok := ast.Unparen(be.X).(*ast.Ident)
	if !ok || in.info.Uses[pid] != b.params[0] {
		return false
	}
	// the target: X.F with X := &S{…} (no F in the literal), F not assigned earlier in this list
	se, ok := ast.Unparen(s.Lhs[0]).(*ast.SelectorExpr)
	if !ok {
		return false
	}
	xid, ok := se.X.(*ast.Ident)
	if !ok {
		return false
	}
	xobj := in.info.Uses[xid]
	fresh := false
	ast.Inspect(fd.Body, func(n ast.Node) bool {
		as, ok := n.(*ast.AssignStmt)
		if !ok || as.Tok != token.DEFINE || len(as.Lhs) != 1 || len(as.Rhs) != 1 || as.Pos() > s.Pos() {
			return true
		}
		if id, ok := as.Lhs[0].(*ast.Ident); ok && in.info.Defs[id] == xobj {
			if u, ok := ast.Unparen(as.Rhs[0]).(*ast.UnaryExpr); ok && u.Op == token.AND {
				if lit, ok := ast.Unparen(u.X).(*ast.CompositeLit); ok {
					fresh = true
					for _, el := range lit.Elts {
						if kv, ok := el.(*ast.KeyValueExpr); ok && types.ExprString(kv.Key) == se.Sel.Name {
							fresh = false
						}
					}
				}
			}
		}
		return true
	})
	if !fresh {
		return false
	}
	lhsText := types.ExprString(s.Lhs[0])
	for _, prev := range list[:i] {
		bad := false
		ast.Inspect(prev, func(n ast.Node) bool {
			if as, ok := n.(*ast.AssignStmt); ok {
				for _, l := range as.Lhs {
					if types.ExprString(l) == lhsText {
						bad = true
					}
				}
			}
			return true
		})
		if bad {
			return false
		}
	}
	callerFile := in.p.Fset.Position(fd.Pos()).Filename
	retBody := &inlBody{file: b.file, body: &ast.BlockStmt{Lbrace: ret.Pos(), List: []ast.Stmt{ret}, Rbrace: ret.End()}, params: b.params, scope: hd, name: b.name}
	locals := map[types.Object]bool{}
	pe, ok := in.paramEdits(retBody, callerFile, args, locals)
	if !ok || !in.freeVarsVisible(retBody, call.Pos(), locals) {
		return false
	}
	src := in.source(b.file)
	lo, hi := in.off(ret.Results[0].Pos()), in.off(ret.Results[0].End())
	if src == nil || lo > hi || hi > len(src) {
		return false
	}
	valText := applyEdits(src[lo:hi], lo, pe)
	argText := in.text(callerFile, args[0].Pos(), args[0].End())
	if valText == "" || argText == "" || strings.Contains(valText, "\n") {
		return false
	}
	text := fmt.Sprintf("if %s != nil { %s = %s }", argText, in.text(callerFile, s.Lhs[0].Pos(), s.Lhs[0].End()), valText)
	in.edits[callerFile] = append(in.edits[callerFile], inlEdit{in.off(s.Pos()), in.off(s.End()), text})
	in.notes = append(in.notes, fmt.Sprintf("%s (nil-guard wrapper) inlined at %s:%d", b.name, relName(in.p, callerFile), in.line(s.Pos())))
	return true
}

// renameLocals: edits that give every object declared inside the helper's body a suffixed name.
func (in *inliner) renameLocals(b *inlBody, locals map[types.Object]bool) []inlEdit {
	var es []inlEdit
	in.seq++
	suffix := fmt.Sprintf("_%s%d", b.name[strings.LastIndex(b.name, ".")+1:], in.seq)
	ast.Inspect(b.body, func(n ast.Node) bool {
		id, ok := n.(*ast.Ident)
		if !ok || id.Name == "_" {
			return true
		}
		o := in.info.Defs[id]
		if o == nil {
			o = in.info.Uses[id]
		}
		if o != nil && locals[o] {
			if v, isVar := o.(*types.Var); !isVar || !v.IsField() {
				es = append(es, inlEdit{in.off(id.Pos()), in.off(id.End()), id.Name + suffix})
			}
		}
		return true
	})
	return es
}

func roleKey(pkg, owner, name string) string { return pkg + "|" + owner + "|" + name }

// inlineOverlay: the sources with calls of new helpers replaced by their bodies.
func (p *Program) inlineOverlay() (map[string][]byte, []string) {
	knownFunc := map[string]bool{}
	knownLocals := map[string]map[string]bool{}
	for _, e := range recordedRoles {
		if e.kind != roleMethod && e.kind != roleFunc {
			continue
		}
		k := roleKey(e.pkg, e.owner, e.name)
		knownFunc[k] = true
		ls := map[string]bool{}
		for _, l := range strings.Split(e.locals, ";") {
			if i := strings.Index(l, ":"); i > 0 {
				ls[l[:i]] = true
			}
		}
		knownLocals[k] = ls
	}
	out := map[string][]byte{}
	var notes []string
	for _, path := range InScope {
		pkg := p.All[path]
		if pkg == nil {
			continue
		}
		in := &inliner{p: p, pkg: pkg, info: pkg.TypesInfo, src: map[string][]byte{}, edits: map[string][]inlEdit{}}
		declOf := map[types.Object]*ast.FuncDecl{}
		for _, fd := range AllFuncDecls(pkg) {
			if o := in.info.Defs[fd.Name]; o != nil {
				declOf[o] = fd
			}
		}
		fileName := func(pos token.Pos) string { return p.Fset.Position(pos).Filename }
		isNewHelper := func(fd *ast.FuncDecl) bool {
			if fd == nil || fd.Body == nil || ast.IsExported(fd.Name.Name) || strings.HasSuffix(fileName(fd.Pos()), "-generated.go") {
				return false
			}
			return !knownFunc[roleKey(pkg.PkgPath, recvTypeName(fd), fd.Name.Name)]
		}
		helperBody := func(fd *ast.FuncDecl, call *ast.CallExpr) (*inlBody, []ast.Expr, bool) {
			b := &inlBody{file: fileName(fd.Pos()), body: fd.Body, scope: fd, name: FuncName(fd)}
			var args []ast.Expr
			if fd.Recv != nil {
				se, ok := ast.Unparen(call.Fun).(*ast.SelectorExpr)
				if !ok || len(fd.Recv.List) != 1 {
					return nil, nil, false
				}
				if len(fd.Recv.List[0].Names) == 1 && fd.Recv.List[0].Names[0].Name != "_" {
					b.params = append(b.params, in.info.Defs[fd.Recv.List[0].Names[0]])
				} else {
					b.params = append(b.params, nil)
				}
				args = append(args, se.X)
			}
			if fd.Type.Params != nil {
				for _, f := range fd.Type.Params.List {
					if _, variadic := f.Type.(*ast.Ellipsis); variadic {
						return nil, nil, false
					}
					if len(f.Names) == 0 {
						b.params = append(b.params, nil)
					}
					for _, nm := range f.Names {
						if nm.Name == "_" {
							b.params = append(b.params, nil)
						} else {
							b.params = append(b.params, in.info.Defs[nm])
						}
					}
				}
			}
			args = append(args, call.Args...)
			if call.Ellipsis.IsValid() || len(args) != len(b.params) {
				return nil, nil, false
			}
			return b, args, true
		}
		inlinedCalls := map[*ast.FuncDecl]int{}
		for _, fd := range AllFuncDecls(pkg) {
			if fd.Body == nil {
				continue // (callers in generated files are read too: hand patches land there)
			}
			callerFile := fileName(fd.Pos())
			fkey := roleKey(pkg.PkgPath, recvTypeName(fd), fd.Name.Name)
			// closures of this function that are new, result-less, and only ever called as statements
			closures := map[types.Object]*ast.FuncLit{}
			closureDef := map[*ast.FuncLit]*ast.AssignStmt{}
			closureCalls, closureInl := map[*ast.FuncLit]int{}, map[*ast.FuncLit]int{}
			ast.Inspect(fd.Body, func(n ast.Node) bool {
				as, ok := n.(*ast.AssignStmt)
				if !ok || as.Tok != token.DEFINE || len(as.Lhs) != 1 || len(as.Rhs) != 1 {
					return true
				}
				id, ok := as.Lhs[0].(*ast.Ident)
				lit, ok2 := as.Rhs[0].(*ast.FuncLit)
				if !ok || !ok2 || id.Name == "_" {
					return true
				}
				if knownFunc[fkey] && knownLocals[fkey][id.Name] {
					return true // a closure the rules know
				}
				if lit.Type.Results != nil && len(lit.Type.Results.List) > 0 {
					return true
				}
				if o := in.info.Defs[id]; o != nil {
					closures[o] = lit
					closureDef[lit] = as
				}
				return true
			})
			// expression closures: `name := func(params) T { return E }`, new, every use a call: the
			// call is replaced by (E) with the arguments in place of the parameters
			ast.Inspect(fd.Body, func(n ast.Node) bool {
				as, ok := n.(*ast.AssignStmt)
				if !ok || as.Tok != token.DEFINE || len(as.Lhs) != 1 || len(as.Rhs) != 1 {
					return true
				}
				id, ok := as.Lhs[0].(*ast.Ident)
				lit, ok2 := as.Rhs[0].(*ast.FuncLit)
				if !ok || !ok2 || id.Name == "_" || (knownFunc[fkey] && knownLocals[fkey][id.Name]) {
					return true
				}
				if lit.Type.Results == nil || len(lit.Type.Results.List) != 1 || len(lit.Type.Results.List[0].Names) > 0 || len(lit.Body.List) != 1 {
					return true
				}
				ret, ok := lit.Body.List[0].(*ast.ReturnStmt)
				if !ok || len(ret.Results) != 1 {
					return true
				}
				obj := in.info.Defs[id]
				if obj == nil {
					return true
				}
				hasLit := false
				ast.Inspect(ret.Results[0], func(m ast.Node) bool {
					if _, ok := m.(*ast.FuncLit); ok {
						hasLit = true
					}
					return true
				})
				if hasLit {
					return true
				}
				// all uses are calls outside the literal
				var calls []*ast.CallExpr
				okAll := true
				callFun := map[*ast.Ident]*ast.CallExpr{}
				ast.Inspect(fd.Body, func(m ast.Node) bool {
					if call, ok := m.(*ast.CallExpr); ok {
						if f, ok := call.Fun.(*ast.Ident); ok {
							callFun[f] = call
						}
					}
					return true
				})
				ast.Inspect(fd.Body, func(m ast.Node) bool {
					u, ok := m.(*ast.Ident)
					if !ok || in.info.Uses[u] != obj {
						return true
					}
					call := callFun[u]
					if call == nil || (lit.Pos() <= u.Pos() && u.End() <= lit.End()) || call.Ellipsis.IsValid() {
						okAll = false
						return true
					}
					calls = append(calls, call)
					return true
				})
				if !okAll || len(calls) == 0 {
					return true
				}
				b := &inlBody{file: callerFile, body: lit.Body, scope: lit, name: FuncName(fd) + "." + id.Name, isLit: true}
				for _, f := range lit.Type.Params.List {
					if _, variadic := f.Type.(*ast.Ellipsis); variadic {
						return true
					}
					if len(f.Names) == 0 {
						b.params = append(b.params, nil)
					}
					for _, nm := range f.Names {
						if nm.Name == "_" {
							b.params = append(b.params, nil)
						} else {
							b.params = append(b.params, in.info.Defs[nm])
						}
					}
				}
				locals, okb := in.bodyOK(b)
				if !okb || len(locals) > 0 {
					return true
				}
				var edits []inlEdit
				src := in.source(callerFile)
				for _, call := range calls {
					pe, ok := in.paramEdits(b, callerFile, call.Args, locals)
					if !ok || !in.freeVarsVisible(b, call.Pos(), locals) || src == nil {
						return true
					}
					lo, hi := in.off(ret.Results[0].Pos()), in.off(ret.Results[0].End())
					text := applyEdits(src[lo:hi], lo, pe)
					if needsParens(ast.Unparen(ret.Results[0])) {
						text = "(" + text + ")"
					}
					if strings.Contains(text, "\n") {
						return true
					}
					edits = append(edits, inlEdit{in.off(call.Pos()), in.off(call.End()), text})
				}
				// nested calls (a call inside another call's argument) would overlap: refuse
				for i := range calls {
					for j := range calls {
						if i != j && calls[i].Pos() <= calls[j].Pos() && calls[j].End() <= calls[i].End() {
							return true
						}
					}
				}
				in.edits[callerFile] = append(in.edits[callerFile], edits...)
				in.edits[callerFile] = append(in.edits[callerFile], inlEdit{in.off(as.Pos()), in.off(as.End()), fmt.Sprintf("\n//line %s:%d\n", callerFile, in.line(as.End()))})
				in.notes = append(in.notes, fmt.Sprintf("%s.%s (an expression) inlined at %d call sites", FuncName(fd), id.Name, len(calls)))
				return true
			})
			// every use of such a closure must be a statement call outside its own body
			if len(closures) > 0 {
				stmtCalls := map[*ast.Ident]bool{}
				ast.Inspect(fd.Body, func(n ast.Node) bool {
					if es, ok := n.(*ast.ExprStmt); ok {
						if call, ok := es.X.(*ast.CallExpr); ok {
							if id, ok := call.Fun.(*ast.Ident); ok {
								stmtCalls[id] = true
							}
						}
					}
					return true
				})
				ast.Inspect(fd.Body, func(n ast.Node) bool {
					id, ok := n.(*ast.Ident)
					if !ok {
						return true
					}
					o := in.info.Uses[id]
					lit, isC := closures[o]
					if !isC {
						return true
					}
					if !stmtCalls[id] || (lit.Pos() <= id.Pos() && id.End() <= lit.End()) {
						delete(closures, o)
					}
					return true
				})
			}
			done := map[ast.Stmt]bool{}
			var lists [][]ast.Stmt
			ast.Inspect(fd.Body, func(n ast.Node) bool {
				switch v := n.(type) {
				case *ast.BlockStmt:
					lists = append(lists, v.List)
				case *ast.CaseClause:
					lists = append(lists, v.Body)
				case *ast.CommClause:
					lists = append(lists, v.Body)
				}
				return true
			})
			// one inlining per function and round keeps the edits from nesting; further rounds
			// (Load calls inlineOverlay again on the result) take care of the rest
			for _, list := range lists {
				for i, st := range list {
					if done[st] {
						continue
					}
					// a statement inside a closure that is itself being inlined would be edited twice
					inClosure := false
					for _, lit := range closures {
						if lit.Pos() <= st.Pos() && st.End() <= lit.End() {
							inClosure = true
						}
					}
					if inClosure {
						continue
					}
					switch s := st.(type) {
					case *ast.IfStmt:
						if hd := in.inlineIfInit(fd, s, declOf, isNewHelper, helperBody); hd != nil {
							done[st] = true
							inlinedCalls[hd]++
						}
					case *ast.ExprStmt:
						call, ok := s.X.(*ast.CallExpr)
						if !ok {
							continue
						}
						if id, ok := call.Fun.(*ast.Ident); ok {
							if lit, isC := closures[in.info.Uses[id]]; isC {
								b := &inlBody{file: callerFile, body: lit.Body, scope: lit, name: FuncName(fd) + "." + id.Name, isLit: true}
								bad := call.Ellipsis.IsValid()
								if lit.Type.Params != nil {
									for _, f := range lit.Type.Params.List {
										if _, variadic := f.Type.(*ast.Ellipsis); variadic {
											bad = true
										}
										if len(f.Names) == 0 {
											b.params = append(b.params, nil)
										}
										for _, nm := range f.Names {
											if nm.Name == "_" {
												b.params = append(b.params, nil)
											} else {
												b.params = append(b.params, in.info.Defs[nm])
											}
										}
									}
								}
								closureCalls[lit]++
								if !bad && in.inlineVoid(b, callerFile, call, s, call.Args) {
									done[st] = true
									closureInl[lit]++
								}
								continue
							}
						}
						fn := calleeFuncObj(in.info, call)
						if hd := declOf[fn]; fn != nil && hd != fd && isNewHelper(hd) && (hd.Type.Results == nil || len(hd.Type.Results.List) == 0) {
							if b, args, ok := helperBody(hd, call); ok && in.inlineVoid(b, callerFile, call, s, args) {
								done[st] = true
								inlinedCalls[hd]++
							}
						}
					case *ast.AssignStmt:
						if in.inlineNilWrapper(fd, list, i, s, declOf, isNewHelper, helperBody) {
							done[st] = true
							if call, ok := ast.Unparen(s.Rhs[0]).(*ast.CallExpr); ok {
								if hd := declOf[calleeFuncObj(in.info, call)]; hd != nil {
									inlinedCalls[hd]++
								}
							}
							continue
						}
						if len(s.Rhs) != 1 || (s.Tok != token.DEFINE && s.Tok != token.ASSIGN) || i+1 >= len(list) {
							continue
						}
						call, ok := ast.Unparen(s.Rhs[0]).(*ast.CallExpr)
						if !ok {
							continue
						}
						fn := calleeFuncObj(in.info, call)
						hd := declOf[fn]
						if fn == nil || hd == fd || !isNewHelper(hd) || hd.Type.Results == nil {
							continue
						}
						s2, _ := list[i+1].(*ast.IfStmt)
						if os.Getenv("DSTVERIF_DEBUG_INLINE") != "" {
							fmt.Fprintf(os.Stderr, "inline: candidate %s at %s\n", FuncName(hd), p.Fset.Position(s.Pos()))
						}
						if b, args, ok := helperBody(hd, call); ok && in.inlineGuarded(b, callerFile, call, s, s2, args) {
							done[st] = true
							done[list[i+1]] = true
							inlinedCalls[hd]++
						}
					}
				}
			}
			// a closure all of whose calls were inlined is not defined any more (its body would be
			// read as code of the function); one that is still called somewhere stays, marked as used
			for lit, def := range closureDef {
				switch {
				case closureInl[lit] == 0:
				case closureInl[lit] == closureCalls[lit]:
					in.edits[callerFile] = append(in.edits[callerFile], inlEdit{in.off(def.Pos()), in.off(def.End()), fmt.Sprintf("\n//line %s:%d\n", callerFile, in.line(def.End()))})
				default:
					in.edits[callerFile] = append(in.edits[callerFile], inlEdit{in.off(lit.End()), in.off(lit.End()), "; _ = " + def.Lhs[0].(*ast.Ident).Name})
				}
			}
		}
		// expression helpers: a new function or method that is a single `return E`, every use of
		// which in this package is a call: each call becomes (E) with receiver and parameters replaced
		for _, hd := range AllFuncDecls(pkg) {
			if !isNewHelper(hd) || hd.Type.Results == nil || len(hd.Type.Results.List) != 1 || len(hd.Type.Results.List[0].Names) > 0 || len(hd.Body.List) != 1 {
				continue
			}
			ret, ok := hd.Body.List[0].(*ast.ReturnStmt)
			if !ok || len(ret.Results) != 1 {
				continue
			}
			hasLit := false
			ast.Inspect(ret.Results[0], func(m ast.Node) bool {
				if _, ok := m.(*ast.FuncLit); ok {
					hasLit = true
				}
				return true
			})
			obj := in.info.Defs[hd.Name]
			if hasLit || obj == nil {
				continue
			}
			var calls []*ast.CallExpr
			var callers []*ast.FuncDecl
			uses, okAll := 0, true
			for _, fd := range AllFuncDecls(pkg) {
				if fd.Body == nil || fd == hd {
					continue
				}
				ast.Inspect(fd.Body, func(m ast.Node) bool {
					call, ok := m.(*ast.CallExpr)
					if !ok {
						return true
					}
					if calleeFuncObj(in.info, call) == obj {
						calls = append(calls, call)
						callers = append(callers, fd)
					}
					return true
				})
			}
			for _, q := range p.All {
				if q.TypesInfo == nil {
					continue
				}
				for _, o := range q.TypesInfo.Uses {
					if o == obj {
						uses++
					}
				}
			}
			if uses != len(calls) || len(calls) == 0 {
				continue
			}
			var edits []inlEdit
			file := fileName(hd.Pos())
			src := in.source(file)
			for i, call := range calls {
				b, args, ok := helperBody(hd, call)
				if !ok || src == nil {
					okAll = false
					break
				}
				locals, okb := in.bodyOK(b)
				callerFile := fileName(callers[i].Pos())
				if !okb || len(locals) > 0 {
					okAll = false
					break
				}
				pe, ok := in.paramEdits(b, callerFile, args, locals)
				if !ok || !in.freeVarsVisible(b, call.Pos(), locals) {
					okAll = false
					break
				}
				lo, hi := in.off(ret.Results[0].Pos()), in.off(ret.Results[0].End())
				text := applyEdits(src[lo:hi], lo, pe)
				if needsParens(ast.Unparen(ret.Results[0])) {
					text = "(" + text + ")"
				}
				if strings.Contains(text, "\n") {
					okAll = false
					break
				}
				edits = append(edits, inlEdit{in.off(call.Pos()), in.off(call.End()), text})
				_ = callerFile
			}
			if !okAll {
				continue
			}
			for i, e := range edits {
				cf := fileName(callers[i].Pos())
				in.edits[cf] = append(in.edits[cf], e)
			}
			inlinedCalls[hd] += len(calls)
			in.notes = append(in.notes, fmt.Sprintf("%s (an expression) inlined at %d call sites", FuncName(hd), len(calls)))
		}
		// a helper all of whose uses were inlined is not declared any more: the rules would read
		// its body a second time, as a function nobody calls
		for hd, k := range inlinedCalls {
			obj := in.info.Defs[hd.Name]
			uses := 0
			for _, q := range p.All {
				if q.TypesInfo == nil {
					continue
				}
				for _, o := range q.TypesInfo.Uses {
					if o == obj {
						uses++
					}
				}
			}
			if uses == k {
				from := hd.Pos()
				if hd.Doc != nil {
					from = hd.Doc.Pos()
				}
				file := fileName(hd.Pos())
				in.edits[file] = append(in.edits[file], inlEdit{in.off(from), in.off(hd.End()), fmt.Sprintf("\n//line %s:%d\n", file, in.line(hd.End()))})
			}
		}
		for name, es := range in.edits {
			src := in.source(name)
			if src == nil {
				return nil, nil
			}
			// drop edits that lie inside another edit (a call inside an inlined statement)
			sort.Slice(es, func(i, j int) bool { return es[i].off < es[j].off })
			var keep []inlEdit
			last := -1
			for _, e := range es {
				if e.off < last {
					continue
				}
				keep = append(keep, e)
				last = e.end
			}
			out[name] = []byte(applyEdits(src, 0, keep))
		}
		notes = append(notes, in.notes...)
	}
	sort.Strings(notes)
	return out, notes
}

func calleeFuncObj(info *types.Info, call *ast.CallExpr) types.Object {
	switch f := ast.Unparen(call.Fun).(type) {
	case *ast.Ident:
		if fn, ok := info.Uses[f].(*types.Func); ok {
			return fn
		}
	case *ast.SelectorExpr:
		if fn, ok := info.Uses[f.Sel].(*types.Func); ok {
			return fn
		}
	}
	return nil
}

func dbgFalse(n int) bool {
	if os.Getenv("DSTVERIF_DEBUG_INLINE") != "" {
		fmt.Fprintf(os.Stderr, "inline: guarded form refused at check %d\n", n)
	}
	return false
}
