package main

import (
	"fmt"
	"go/ast"
	"go/types"

	"dstverif/load"
)

func main() {
	prog, err := load.Load(load.Options{})
	if err != nil {
		panic(err)
	}
	for _, pkg := range prog.InScopePkgs() {
		for _, fd := range load.AllFuncDecls(pkg) {
			if fd.Body == nil {
				continue
			}
			ast.Inspect(fd.Body, func(n ast.Node) bool {
				if rs, ok := n.(*ast.RangeStmt); ok {
					if _, isMap := pkg.TypesInfo.TypeOf(rs.X).Underlying().(*types.Map); isMap {
						fmt.Printf("%s %s range %s\n", prog.Pos(rs.Pos()), load.FuncName(fd), types.ExprString(rs.X))
					}
				}
				if _, ok := n.(*ast.GoStmt); ok {
					fmt.Printf("%s GO\n", prog.Pos(n.Pos()))
				}
				return true
			})
		}
		for _, name := range pkg.Types.Scope().Names() {
			if v, ok := pkg.Types.Scope().Lookup(name).(*types.Var); ok {
				fmt.Printf("%s var %s.%s %s\n", prog.Pos(v.Pos()), pkg.PkgPath, name, v.Type())
			}
		}
	}
}
