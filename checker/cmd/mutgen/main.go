// mutgen lists syntactic mutants of the non-test sources of a dst tree, one JSON object per line:
// {"id","file","line","op","off","end","orig","repl"}. The sweep driver (tools/mutsweep.py)
// splices repl over [off,end) of file, keeps the mutants that still build and pass the pinned
// tests, and runs the checks on those. It is a measuring instrument for the checker (which
// realistic small changes does it notice?), not part of any check.
package main

import (
	"encoding/json"
	"fmt"
	"go/ast"
	"go/parser"
	"go/token"
	"os"
	"path/filepath"
	"sort"
	"strings"
)

type mutant struct {
	ID   string `json:"id"`
	File string `json:"file"`
	Line int    `json:"line"`
	Func string `json:"func"`
	Op   string `json:"op"`
	Off  int    `json:"off"`
	End  int    `json:"end"`
	Orig string `json:"orig"`
	Repl string `json:"repl"`
}

func main() {
	root := os.Args[1]
	var files []string
	filepath.Walk(root, func(p string, fi os.FileInfo, err error) error {
		if err != nil {
			return nil
		}
		rel, _ := filepath.Rel(root, p)
		if fi.IsDir() {
			if rel == "gendst" || rel == ".git" || strings.HasPrefix(rel, "gendst/") || strings.Contains(rel, "testdata") {
				return filepath.SkipDir
			}
			return nil
		}
		if strings.HasSuffix(p, ".go") && !strings.HasSuffix(p, "_test.go") && !strings.Contains(rel, "dummy") {
			files = append(files, rel)
		}
		return nil
	})
	sort.Strings(files)
	enc := json.NewEncoder(os.Stdout)
	n := 0
	for _, rel := range files {
		src, err := os.ReadFile(filepath.Join(root, rel))
		if err != nil {
			continue
		}
		fset := token.NewFileSet()
		f, err := parser.ParseFile(fset, rel, src, parser.ParseComments)
		if err != nil {
			continue
		}
		emit := func(fn string, n0 ast.Node, op string, from, to token.Pos, repl string) {
			off, end := fset.Position(from).Offset, fset.Position(to).Offset
			n++
			enc.Encode(mutant{fmt.Sprintf("M%05d", n), rel, fset.Position(n0.Pos()).Line, fn, op, off, end, string(src[off:end]), repl})
		}
		text := func(x ast.Node) string {
			return string(src[fset.Position(x.Pos()).Offset:fset.Position(x.End()).Offset])
		}
		for _, d := range f.Decls {
			fd, ok := d.(*ast.FuncDecl)
			if !ok || fd.Body == nil {
				continue
			}
			fn := fd.Name.Name
			if fd.Recv != nil && len(fd.Recv.List) == 1 {
				t := fd.Recv.List[0].Type
				if s, ok := t.(*ast.StarExpr); ok {
					t = s.X
				}
				if id, ok := t.(*ast.Ident); ok {
					fn = id.Name + "." + fn
				}
			}
			ast.Inspect(fd.Body, func(nd ast.Node) bool {
				switch v := nd.(type) {
				case *ast.IfStmt:
					emit(fn, v, "cond-neg", v.Cond.Pos(), v.Cond.End(), "!("+text(v.Cond)+")")
					if v.Else == nil && v.Init == nil {
						emit(fn, v, "if-always", v.Cond.Pos(), v.Cond.End(), "true || ("+text(v.Cond)+")")
						emit(fn, v, "if-never", v.Cond.Pos(), v.Cond.End(), "false && ("+text(v.Cond)+")")
					}
				case *ast.BinaryExpr:
					swap := map[token.Token]string{token.EQL: "!=", token.NEQ: "==", token.LSS: "<=", token.LEQ: "<", token.GTR: ">=", token.GEQ: ">", token.LAND: "||", token.LOR: "&&", token.ADD: "-", token.SUB: "+"}
					if r, ok := swap[v.Op]; ok {
						// strings are concatenated with +: a - would not compile, harmless
						emit(fn, v, "binop "+v.Op.String()+"->"+r, v.OpPos, v.OpPos+token.Pos(len(v.Op.String())), r)
					}
					if v.Op == token.LAND || v.Op == token.LOR {
						emit(fn, v, "drop-left-operand", v.Pos(), v.End(), text(v.Y))
						emit(fn, v, "drop-right-operand", v.Pos(), v.End(), text(v.X))
					}
				case *ast.BlockStmt:
					for _, st := range v.List {
						switch s := st.(type) {
						case *ast.ExprStmt:
							if _, ok := s.X.(*ast.CallExpr); ok {
								if !strings.HasPrefix(text(s), "panic(") {
									emit(fn, s, "stmt-del", s.Pos(), s.End(), "")
								}
							}
						case *ast.AssignStmt:
							if s.Tok != token.DEFINE {
								emit(fn, s, "stmt-del", s.Pos(), s.End(), "")
							}
						case *ast.IncDecStmt:
							emit(fn, s, "stmt-del", s.Pos(), s.End(), "")
						case *ast.BranchStmt:
							if s.Tok == token.CONTINUE && s.Label == nil {
								emit(fn, s, "continue->break", s.Pos(), s.End(), "break")
							} else if s.Tok == token.BREAK && s.Label == nil {
								emit(fn, s, "break->continue", s.Pos(), s.End(), "continue")
							}
						}
					}
				case *ast.CaseClause:
					for _, st := range v.Body {
						switch s := st.(type) {
						case *ast.ExprStmt:
							if _, ok := s.X.(*ast.CallExpr); ok && !strings.HasPrefix(text(s), "panic(") {
								emit(fn, s, "stmt-del", s.Pos(), s.End(), "")
							}
						case *ast.AssignStmt:
							if s.Tok != token.DEFINE {
								emit(fn, s, "stmt-del", s.Pos(), s.End(), "")
							}
						}
					}
				case *ast.BasicLit:
					if v.Kind == token.INT {
						switch v.Value {
						case "0":
							emit(fn, v, "const 0->1", v.Pos(), v.End(), "1")
						case "1":
							emit(fn, v, "const 1->0", v.Pos(), v.End(), "0")
							emit(fn, v, "const 1->2", v.Pos(), v.End(), "2")
						}
					}
				case *ast.Ident:
					if v.Name == "true" {
						emit(fn, v, "true->false", v.Pos(), v.End(), "false")
					} else if v.Name == "false" {
						emit(fn, v, "false->true", v.Pos(), v.End(), "true")
					}
				}
				return true
			})
		}
	}
	fmt.Fprintf(os.Stderr, "%d mutants in %d files\n", n, len(files))
}
