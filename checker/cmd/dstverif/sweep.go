package main

import (
	"fmt"
	"go/ast"
	"go/parser"
	"go/token"
	"sort"
	"strings"

	"golang.org/x/tools/go/packages"

	"dstverif/load"
	"dstverif/report"
)

// buildTagSweep (thorough tier): the set of source files of the in-scope packages is the same on
// every GOOS/GOARCH, and no file is excluded by build constraints — so no build-tagged source
// escapes the analysis. Only `go list` metadata is read.
func buildTagSweep(prog *load.Program, run *report.Run) {
	type plat struct{ goos, goarch string }
	plats := []plat{{"linux", "amd64"}, {"linux", "386"}, {"windows", "amd64"}, {"darwin", "arm64"}}
	var ref string
	for _, pl := range plats {
		env := append([]string{}, prog.Env...)
		env = append(env, "GOOS="+pl.goos, "GOARCH="+pl.goarch)
		cfg := &packages.Config{Mode: packages.NeedName | packages.NeedFiles, Dir: prog.RepoDir, Env: env, Tests: false}
		pkgs, err := packages.Load(cfg, "./...")
		key := fmt.Sprintf("file set on %s/%s", pl.goos, pl.goarch)
		if err != nil {
			run.Undecided("R-SWEEP", key, "", err.Error())
			continue
		}
		var files, ignored []string
		for _, p := range pkgs {
			inScope := false
			for _, s := range load.InScope {
				if p.PkgPath == s {
					inScope = true
				}
			}
			if !inScope {
				continue
			}
			files = append(files, p.GoFiles...)
			ignored = append(ignored, p.IgnoredFiles...)
		}
		sort.Strings(files)
		sig := strings.Join(files, "\n")
		if ref == "" {
			ref = sig
		}
		run.Check("R-SWEEP", key+" equals the analysed set", "", sig == ref, "a platform-specific source file exists that the analysis (run for the host platform) does not see")
		// an excluded file is harmless when nothing in it can run: every function in it has an
		// empty body (the stub that stands in for a file behind a newer-Go build tag) and it
		// declares nothing else but imports
		var live []string
		for _, name := range ignored {
			if !inertFile(name) {
				live = append(live, name)
			}
		}
		run.Check("R-SWEEP", fmt.Sprintf("no file with code excluded by build constraints on %s/%s", pl.goos, pl.goarch), "", len(live) == 0, fmt.Sprintf("ignored files that declare more than empty stubs: %v", live))
	}
	run.Analysed("platforms swept", len(plats))
}

// inertFile: the file parses, and its declarations are imports and functions with empty bodies.
func inertFile(name string) bool {
	f, err := parser.ParseFile(token.NewFileSet(), name, nil, parser.SkipObjectResolution)
	if err != nil {
		return false
	}
	for _, d := range f.Decls {
		switch v := d.(type) {
		case *ast.GenDecl:
			if v.Tok != token.IMPORT {
				return false
			}
		case *ast.FuncDecl:
			if v.Body == nil || len(v.Body.List) != 0 {
				return false
			}
		}
	}
	return true
}
