// dstverif decides the dst properties by static analysis of /repo's current source.
//
//	dstverif -prop C06 -tier quick|thorough [-replay report.json]
package main

import (
	"encoding/json"
	"flag"
	"fmt"
	"os"
	"runtime/debug"
	"sort"
	"strconv"
	"strings"

	"dstverif/load"
	"dstverif/report"
	"dstverif/rules"
)

func main() {
	prop := flag.String("prop", "", "property id")
	tier := flag.String("tier", "", "quick|thorough")
	replay := flag.String("replay", "", "violation report to replay")
	list := flag.Bool("list", false, "list properties")
	flag.Parse()
	if *list {
		for id := range rules.Props {
			fmt.Println(id)
		}
		return
	}
	if *tier == "" {
		*tier = os.Getenv("VERIF_TIER")
	}
	if *tier != "thorough" {
		*tier = "quick"
	}
	seed, _ := strconv.ParseInt(os.Getenv("VERIF_SEED"), 10, 64)
	if strings.Contains(*prop, ",") || *prop == "all" {
		os.Exit(runMany(*prop, *tier, seed))
	}
	f, ok := rules.Props[*prop]
	if !ok {
		fmt.Fprintf(os.Stderr, "unknown property %q\n", *prop)
		os.Exit(2)
	}
	run := report.NewRun(*prop, *tier, seed)
	m := rules.Metas[*prop]
	run.Explanation = m.Explanation
	run.NotCovered = m.NotCovered
	run.Assumptions = append(append([]string{}, rules.CommonAssumptions()...), m.Assumptions...)
	if *replay != "" {
		b, err := os.ReadFile(*replay)
		if err != nil {
			fmt.Fprintln(os.Stderr, err)
			os.Exit(2)
		}
		var rep struct{ Key string }
		if err := json.Unmarshal(b, &rep); err != nil || rep.Key == "" {
			fmt.Fprintln(os.Stderr, "replay file has no key")
			os.Exit(2)
		}
		run.ReplayKey = rep.Key
	}
	code := 2
	func() {
		defer func() {
			if r := recover(); r != nil {
				fmt.Printf("CHECKER-PANIC property=%s: %v\n%s\n", *prop, r, debug.Stack())
				code = 2
			}
		}()
		prog, err := load.Load(load.Options{})
		if err != nil {
			fmt.Printf("LOAD-FAILED property=%s: %v\n", *prop, err)
			code = 2
			return
		}
		if len(load.Renames) > 0 {
			// unexported declarations that were renamed are read under the names the rules know
			run.Assumptions = append(run.Assumptions, "canonical names (alpha-renaming through the type checker's Defs/Uses, second load with an overlay): "+strings.Join(load.Renames, "; "))
			fmt.Printf("NOTE property=%s: %d renamed declarations read under their recorded names: %s\n", *prop, len(load.Renames), strings.Join(load.Renames, "; "))
		}
		if len(load.Inlined) > 0 {
			run.Assumptions = append(run.Assumptions, "helpers the rules do not know are read inlined at their call sites (source-to-source, semantics-preserving forms only; load/inline.go): "+strings.Join(load.Inlined, "; "))
			fmt.Printf("NOTE property=%s: %d calls of new helpers read inlined: %s\n", *prop, len(load.Inlined), strings.Join(load.Inlined, "; "))
		}
		env, err := rules.NewEnv(prog, run, *tier)
		if err != nil {
			// a sibling lost its overall shape: the anchor the property rests on is gone
			run.Violation("R-SHAPE", "sibling shape", "", err.Error())
			code = run.Finish()
			return
		}
		f(env)
		if *tier == "thorough" && *replay == "" {
			selfTest(*prop, run)
			buildTagSweep(prog, run)
		}
		code = run.Finish()
	}()
	os.Exit(code)
}

// runMany decides several properties in one process (one load): a development aid for sweeps over
// many variants of the tree (tools/mutsweep.py). Prints "RC prop=<id> rc=<n>" per property; the
// exit status is the largest. The registered commands always decide one property per process.
func runMany(list, tier string, seed int64) int {
	var ids []string
	if list == "all" {
		for id := range rules.Props {
			ids = append(ids, id)
		}
	} else {
		ids = strings.Split(list, ",")
	}
	sort.Strings(ids)
	prog, err := load.Load(load.Options{})
	if err != nil {
		fmt.Printf("LOAD-FAILED: %v\n", err)
		return 2
	}
	worst := 0
	for _, id := range ids {
		f, ok := rules.Props[id]
		if !ok {
			continue
		}
		code := 2
		func() {
			defer func() {
				if r := recover(); r != nil {
					fmt.Printf("CHECKER-PANIC property=%s: %v\n", id, r)
					code = 2
				}
			}()
			run := report.NewRun(id, tier, seed)
			env, err := rules.NewEnv(prog, run, tier)
			if err != nil {
				run.Violation("R-SHAPE", "sibling shape", "", err.Error())
				code = run.Finish()
				return
			}
			f(env)
			code = run.Finish()
		}()
		fmt.Printf("RC prop=%s rc=%d\n", id, code)
		if code > worst {
			worst = code
		}
	}
	return worst
}
