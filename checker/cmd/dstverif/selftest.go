package main

import (
	"encoding/json"
	"fmt"
	"io"
	"os"
	"os/exec"
	"path/filepath"
	"sort"
	"strings"
	"sync"

	"dstverif/load"
	"dstverif/report"
	"dstverif/rules"
)

// Sensitivity self-test (thorough tier): every mutant below, and every seeded change archived
// under /verif/seeded whose meta.json names this property, is applied to a scratch copy of the
// CURRENT /repo tree; the quick check is run on the copy in a child process and must report a
// violation. A mutant whose anchor text no longer exists is skipped. Results go to the evidence
// file; a miss prints SELFTEST-MISS but never a VIOLATION line (it is a statement about the
// checker, not about dst).

type selfResult struct {
	Name    string `json:"name"`
	Kind    string `json:"kind"` // edit | seeded
	Applied bool   `json:"applied"`
	Builds  bool   `json:"builds"`
	Caught  bool   `json:"caught"`
	Flagged bool   `json:"flagged_undecided"` // exit 2 with an UNDECIDED line: reported, not decided
	Rule    string `json:"rule,omitempty"`
	Detail  string `json:"detail,omitempty"`
}

func copyTree(src, dst string) error {
	return filepath.Walk(src, func(p string, info os.FileInfo, err error) error {
		if err != nil {
			return err
		}
		rel, _ := filepath.Rel(src, p)
		if rel == ".git" || strings.HasPrefix(rel, ".git"+string(filepath.Separator)) {
			if info.IsDir() {
				return filepath.SkipDir
			}
			return nil
		}
		target := filepath.Join(dst, rel)
		if info.IsDir() {
			return os.MkdirAll(target, 0o755)
		}
		if !info.Mode().IsRegular() {
			return nil
		}
		in, err := os.Open(p)
		if err != nil {
			return err
		}
		defer in.Close()
		out, err := os.Create(target)
		if err != nil {
			return err
		}
		defer out.Close()
		_, err = io.Copy(out, in)
		return err
	})
}

func goEnv() []string {
	env := []string{}
	for _, e := range os.Environ() {
		if strings.HasPrefix(e, "GOFLAGS=") || strings.HasPrefix(e, "GOWORK=") || strings.HasPrefix(e, "DSTVERIF_") || strings.HasPrefix(e, "VERIF_TIER=") {
			continue
		}
		env = append(env, e)
	}
	return append(env, "GOFLAGS=-mod=mod", "GOPROXY=off", "GOSUMDB=off", "GOTOOLCHAIN=local", "GOWORK=off")
}

func runMutant(prop string, name, kind string, apply func(dir string) (bool, string)) selfResult {
	res := selfResult{Name: name, Kind: kind}
	tmp, err := os.MkdirTemp("", "dstverif-selftest-")
	if err != nil {
		res.Detail = err.Error()
		return res
	}
	defer os.RemoveAll(tmp)
	repo := filepath.Join(tmp, "repo")
	vdir := filepath.Join(tmp, "verif")
	os.MkdirAll(vdir, 0o755)
	if err := copyTree(load.RepoDir(), repo); err != nil {
		res.Detail = "copy: " + err.Error()
		return res
	}
	if b, err := os.ReadFile(filepath.Join(report.VerifDir(), "known-findings.json")); err == nil {
		os.WriteFile(filepath.Join(vdir, "known-findings.json"), b, 0o644)
	}
	ok, why := apply(repo)
	if !ok {
		res.Detail = "not applicable to the current tree: " + why
		return res
	}
	res.Applied = true
	// must still compile (type-check is done by the child's loader: LOAD-FAILED means it does not)
	cmd := exec.Command(os.Args[0], "-prop", prop, "-tier", "quick")
	cmd.Env = append(goEnv(), "DSTVERIF_REPO="+repo, "DSTVERIF_DIR="+vdir)
	out, _ := cmd.CombinedOutput()
	text := string(out)
	code := cmd.ProcessState.ExitCode()
	res.Builds = !strings.Contains(text, "LOAD-FAILED")
	if !res.Builds {
		res.Detail = "mutant does not type-check"
		return res
	}
	if code == 1 && strings.Contains(text, "VIOLATION property="+prop) {
		res.Caught = true
		for _, line := range strings.Split(text, "\n") {
			if strings.HasPrefix(strings.TrimSpace(line), "rule=") {
				res.Rule = strings.TrimSpace(line)
				if len(res.Rule) > 200 {
					res.Rule = res.Rule[:200]
				}
				break
			}
		}
	} else {
		res.Detail = fmt.Sprintf("exit %d without a VIOLATION line", code)
		if code == 2 && strings.Contains(text, "UNDECIDED property="+prop) {
			res.Flagged = true
			res.Detail += " (reported as UNDECIDED)"
		}
	}
	return res
}

func selfTest(prop string, run *report.Run) {
	type job struct {
		name, kind string
		apply      func(string) (bool, string)
	}
	var jobs []job
	for _, m := range rules.SelfTestMutants[prop] {
		m := m
		jobs = append(jobs, job{m.Name, "edit", func(dir string) (bool, string) {
			p := filepath.Join(dir, m.File)
			b, err := os.ReadFile(p)
			if err != nil {
				return false, err.Error()
			}
			s := string(b)
			if strings.Count(s, m.Find) < 1 {
				return false, "anchor text not found in " + m.File
			}
			s = strings.Replace(s, m.Find, m.Replace, 1)
			return os.WriteFile(p, []byte(s), 0o644) == nil, ""
		}})
	}
	// seeded changes for this property
	seedRoot := filepath.Join(report.VerifDir(), "seeded")
	if ents, err := os.ReadDir(seedRoot); err == nil {
		for _, ent := range ents {
			dir := filepath.Join(seedRoot, ent.Name())
			b, err := os.ReadFile(filepath.Join(dir, "meta.json"))
			if err != nil {
				continue
			}
			var meta struct {
				Property string   `json:"property"`
				AlsoFor  []string `json:"also_for"`
			}
			json.Unmarshal(b, &meta)
			match := meta.Property == prop
			for _, a := range meta.AlsoFor {
				if a == prop {
					match = true
				}
			}
			if !match {
				continue
			}
			patch := filepath.Join(dir, "patch.diff")
			jobs = append(jobs, job{"seeded/" + ent.Name(), "seeded", func(repo string) (bool, string) {
				cmd := exec.Command("patch", "-p1", "-s", "-f", "-d", repo, "-i", patch)
				if out, err := cmd.CombinedOutput(); err != nil {
					return false, "patch does not apply: " + strings.TrimSpace(string(out))
				}
				return true, ""
			}})
		}
	}
	results := make([]selfResult, len(jobs))
	var wg sync.WaitGroup
	sem := make(chan struct{}, 6)
	for i, j := range jobs {
		wg.Add(1)
		go func(i int, j job) {
			defer wg.Done()
			sem <- struct{}{}
			defer func() { <-sem }()
			results[i] = runMutant(prop, j.name, j.kind, j.apply)
		}(i, j)
	}
	wg.Wait()
	sort.Slice(results, func(a, b int) bool { return results[a].Name < results[b].Name })
	applied, caught, flagged := 0, 0, 0
	for _, r := range results {
		if r.Applied && r.Builds {
			applied++
			if r.Caught {
				caught++
			} else if r.Flagged {
				flagged++
				fmt.Printf("SELFTEST-UNDECIDED property=%s mutant=%q: %s\n", prop, r.Name, r.Detail)
			} else {
				fmt.Printf("SELFTEST-MISS property=%s mutant=%q: %s\n", prop, r.Name, r.Detail)
			}
		} else {
			fmt.Printf("SELFTEST-SKIP property=%s mutant=%q: %s\n", prop, r.Name, r.Detail)
		}
	}
	fmt.Printf("selftest property=%s mutants=%d applied=%d caught=%d undecided=%d\n", prop, len(results), applied, caught, flagged)
	run.Extra["self_test"] = map[string]interface{}{
		"what":    "each mutant is applied to a scratch copy of the current /repo tree and the quick check must report a violation on it",
		"mutants": len(results), "applied": applied, "caught": caught, "reported_undecided": flagged, "results": results,
	}
}
