package main

import (
	"fmt"
	"os"

	"dstverif/load"
	"dstverif/schema"
)

func main() {
	prog, err := load.Load(load.Options{})
	if err != nil {
		fmt.Println(err)
		os.Exit(2)
	}
	which := "restore"
	if len(os.Args) > 1 {
		which = os.Args[1]
	}
	filter := ""
	if len(os.Args) > 2 {
		filter = os.Args[2]
	}
	sibs, err := schema.ExtractAll(prog)
	if err != nil {
		fmt.Println(err)
		os.Exit(2)
	}
	s := sibs.ByName[which]
	if s == nil {
		fmt.Println("no sibling", which)
		os.Exit(2)
	}
	hist := map[string]int{}
	for _, tn := range s.Order {
		cs := s.Cases[tn]
		for _, e := range cs.Events {
			hist[e.Kind]++
		}
		if filter != "" && filter != tn {
			continue
		}
		fmt.Println("==", tn, prog.Pos(cs.Pos))
		for _, e := range cs.Events {
			fmt.Println("   ", e)
		}
	}
	fmt.Println(len(s.Order), "cases", hist)
}
