package schema

import (
	"fmt"
	"go/ast"
	"go/token"
	"go/types"
	"strings"

	"dstverif/load"
)

// restore-side extractor: (*FileRestorer).restoreNode and the hand-written restoreIdent.

type restoreX struct {
	c    *Ctx
	n    types.Object // case variable (dst node)
	out  types.Object // allocated ast node
	recv types.Object // r
	evs  []Event
	// cursor snapshots: locals holding the cursor (plus a pending advance) — `from := r.cursor`,
	// `to := from + token.Pos(n.Length)`; nAdv counts advances emitted so far
	snap    map[types.Object]cursorSnap
	nAdv    int
	pending map[types.Object][]Event // position stores of a not-yet-applied `to`
	// closures: locals bound once to a function literal without results; a call statement of one
	// is its body with the parameters standing for the arguments
	closures map[types.Object]*ast.FuncLit
	inlining int
}

type cursorSnap struct {
	adv  int
	plus ast.Expr // nil: the cursor itself; else cursor + plus
}

// ExtractRestore extracts the restore sibling.
func ExtractRestore(c *Ctx) (*Sibling, error) {
	fd := load.FuncDecl(c.Pkg, "FileRestorer", "restoreNode")
	s, err := newSibling(c, "restore", fd)
	if err != nil {
		return nil, err
	}
	recv := c.recvObj(fd)
	for _, tn := range s.Order {
		cs := s.Cases[tn]
		x := &restoreX{c: c, n: cs.NObj, recv: recv}
		c.ComputeSubst(cs.Clause.Body, restoreMutable)
		c.ComputeCondLocals(cs.Clause.Body)
		x.stmts(cs.Clause.Body, gctx{})
		c.Subst = nil
		cs.Events = x.evs
	}
	return s, nil
}

var restoreMutable = map[string]bool{"cursor": true, "cursorAtNewLine": true, "lines": true, "comments": true}

// ExtractRestoreIdent extracts the SelectorExpr-producing tail of restoreIdent as a pseudo case.
func ExtractRestoreIdent(c *Ctx) (*Case, error) {
	fd := load.FuncDecl(c.Pkg, "FileRestorer", "restoreIdent")
	if fd == nil || fd.Body == nil {
		return nil, fmt.Errorf("restoreIdent not found")
	}
	recv := c.recvObj(fd)
	var nobj types.Object
	if fd.Type.Params != nil && len(fd.Type.Params.List) > 0 && len(fd.Type.Params.List[0].Names) > 0 {
		nobj = c.Info.Defs[fd.Type.Params.List[0].Names[0]]
	}
	x := &restoreX{c: c, n: nobj, recv: recv}
	c.ComputeSubst(fd.Body.List, restoreMutable)
	body := fd.Body.List
	// the construction of the selector may live in a method that restoreIdent returns the result
	// of: `return r.build(n, name, …)` continues in that method, parameters standing for the arguments
	if tail, callee := c.TailCall(fd); callee != nil {
		x.stmts(body[:len(body)-1], gctx{})
		k := 0
		var bound []types.Object
		for _, f := range callee.Type.Params.List {
			for _, nm := range f.Names {
				if o := c.Info.Defs[nm]; o != nil && k < len(tail.Args) {
					if c.Subst == nil {
						c.Subst = map[types.Object]ast.Expr{}
					}
					c.Subst[o] = tail.Args[k]
					bound = append(bound, o)
				}
				k++
			}
		}
		if callee.Recv != nil && len(callee.Recv.List) == 1 && len(callee.Recv.List[0].Names) == 1 {
			if se, ok := tail.Fun.(*ast.SelectorExpr); ok {
				if o := c.Info.Defs[callee.Recv.List[0].Names[0]]; o != nil {
					c.Subst[o] = se.X
				}
			}
		}
		x.stmts(callee.Body.List, gctx{})
	} else {
		x.stmts(body, gctx{})
	}
	c.Subst = nil
	return &Case{Type: "Ident→SelectorExpr", Events: x.evs, Pos: fd.Pos(), NObj: nobj}, nil
}

// TailCall: the last statement of fd is `return f(args…)` with f a function or method of the same
// package that has a body; returns the call and the callee's declaration.
func (c *Ctx) TailCall(fd *ast.FuncDecl) (*ast.CallExpr, *ast.FuncDecl) {
	if fd == nil || fd.Body == nil || len(fd.Body.List) == 0 {
		return nil, nil
	}
	rs, ok := fd.Body.List[len(fd.Body.List)-1].(*ast.ReturnStmt)
	if !ok || len(rs.Results) != 1 {
		return nil, nil
	}
	call, ok := ast.Unparen(rs.Results[0]).(*ast.CallExpr)
	if !ok {
		return nil, nil
	}
	fn := c.Callee(call)
	if fn == nil || fn.Pkg() != c.Pkg.Types {
		return nil, nil
	}
	for _, d := range load.AllFuncDecls(c.Pkg) {
		if c.Info.Defs[d.Name] == types.Object(fn) && d.Body != nil && d != fd && d.Type.Params != nil {
			n := 0
			for _, f := range d.Type.Params.List {
				n += len(f.Names)
			}
			if n == len(call.Args) {
				return call, d
			}
		}
	}
	return nil, nil
}

func (c *Ctx) recvObj(fd *ast.FuncDecl) types.Object {
	if fd.Recv != nil && len(fd.Recv.List) == 1 && len(fd.Recv.List[0].Names) == 1 {
		return c.Info.Defs[fd.Recv.List[0].Names[0]]
	}
	return nil
}

func (x *restoreX) emit(e Event, g gctx, pos token.Pos) {
	g.apply(&e)
	e.Pos = pos
	x.evs = append(x.evs, e)
	if e.Kind == KAdvance {
		x.nAdv++
	}
}

// snapOf resolves an expression to a cursor snapshot: r.cursor itself, a snapshot local, or
// <snapshot> + token.Pos(E).
func (x *restoreX) snapOf(e ast.Expr) (cursorSnap, bool) {
	if x.isRecvField(e, "cursor") {
		return cursorSnap{adv: x.nAdv}, true
	}
	if id, ok := e.(*ast.Ident); ok {
		sn, ok := x.snap[x.c.ObjOf(id)]
		return sn, ok
	}
	if be, ok := e.(*ast.BinaryExpr); ok && be.Op == token.ADD {
		if base, ok := x.snapOf(be.X); ok && base.plus == nil {
			if conv, ok := be.Y.(*ast.CallExpr); ok && len(conv.Args) == 1 && x.c.isTokenPosType(conv.Fun) {
				return cursorSnap{adv: base.adv, plus: be.Y}, true
			}
		}
	}
	return cursorSnap{}, false
}

// isCursor reports whether e is r.cursor.
func (x *restoreX) isRecvField(e ast.Expr, field string) bool {
	p, ok := x.c.Path(e, x.recv)
	return ok && p == field
}

func (x *restoreX) stmts(list []ast.Stmt, g gctx) {
	for _, s := range list {
		x.stmt(s, g)
	}
}

func (x *restoreX) stmt(s ast.Stmt, g gctx) {
	c := x.c
	switch s := s.(type) {
	case *ast.AssignStmt:
		// f := func(a, b T) { … } — remembered, inlined at its call statements
		if s.Tok == token.DEFINE && len(s.Lhs) == 1 && len(s.Rhs) == 1 {
			if fl, ok := s.Rhs[0].(*ast.FuncLit); ok && (fl.Type.Results == nil || len(fl.Type.Results.List) == 0) {
				if id, ok := s.Lhs[0].(*ast.Ident); ok && c.Info.Defs[id] != nil {
					if x.closures == nil {
						x.closures = map[types.Object]*ast.FuncLit{}
					}
					x.closures[c.Info.Defs[id]] = fl
					return
				}
			}
		}
		x.assign(s, g)
	case *ast.ExprStmt:
		if call, ok := s.X.(*ast.CallExpr); ok {
			if x.call(call, g) {
				return
			}
			if id, ok := call.Fun.(*ast.Ident); ok && x.inlining < 3 && !call.Ellipsis.IsValid() {
				if fl := x.closures[c.Info.Uses[id]]; fl != nil {
					var params []types.Object
					for _, p := range fl.Type.Params.List {
						for _, nm := range p.Names {
							params = append(params, c.Info.Defs[nm])
						}
					}
					if len(params) == len(call.Args) {
						if c.Subst == nil {
							c.Subst = map[types.Object]ast.Expr{}
						}
						for i, p := range params {
							if p != nil {
								c.Subst[p] = call.Args[i]
							}
						}
						x.inlining++
						x.stmts(fl.Body.List, g)
						x.inlining--
						for _, p := range params {
							if p != nil {
								delete(c.Subst, p)
							}
						}
						return
					}
				}
			}
		}
		// a small same-package helper that only registers nodes in the maps is its body
		if body, undo := c.ExpandCall([]ast.Stmt{s}); len(body) > 0 && body[0] != ast.Stmt(s) && onlyMapStores(body) {
			x.stmts(body, g)
			undo()
			return
		} else {
			undo()
		}
		x.other(s, g)
	case *ast.IfStmt:
		if s.Init != nil {
			// `if x := f(); cond` — classify init as a statement of its own
			x.stmt(s.Init, g)
		}
		cond := c.ExprStr(s.Cond)
		x.stmts(s.Body.List, g.with(cond, false))
		switch el := s.Else.(type) {
		case *ast.BlockStmt:
			x.stmts(el.List, g.with(cond, true))
		case *ast.IfStmt:
			x.stmt(el, g.with(cond, true))
		}
	case *ast.RangeStmt:
		x.rangeStmt(s, g)
	case *ast.ReturnStmt:
		ex := ""
		if len(s.Results) == 1 {
			ex = c.ExprStr(s.Results[0])
			if id, ok := s.Results[0].(*ast.Ident); ok && x.out != nil && c.ObjOf(id) == x.out {
				ex = "out"
			}
		}
		x.emit(Event{Kind: KRet, Expr: ex}, g, s.Pos())
	case *ast.IncDecStmt:
		if x.isRecvField(s.X, "cursor") {
			x.emit(Event{Kind: KAdvance, Expr: s.Tok.String()}, g, s.Pos())
			return
		}
		x.other(s, g)
	case *ast.SwitchStmt:
		// tagless switch: an if / else-if chain
		if s.Tag != nil || s.Init != nil {
			x.other(s, g)
			return
		}
		prev := g
		for _, cl := range s.Body.List {
			cc := cl.(*ast.CaseClause)
			if cc.List == nil {
				continue
			}
			var conds []string
			for _, e := range cc.List {
				conds = append(conds, x.c.ExprStr(e))
			}
			cond := strings.Join(conds, " || ")
			if len(conds) > 1 {
				cond = "(" + cond + ")"
			}
			x.stmts(cc.Body, prev.with(cond, false))
			prev = prev.with(cond, true)
		}
		for _, cl := range s.Body.List {
			if cc := cl.(*ast.CaseClause); cc.List == nil {
				x.stmts(cc.Body, prev)
			}
		}
	case *ast.BlockStmt:
		x.stmts(s.List, g)
	case *ast.DeclStmt, *ast.EmptyStmt:
		x.other(s, g)
	default:
		x.other(s, g)
	}
}

// other classifies a statement that matched no shape: Opaque when it touches tracked state.
func (x *restoreX) other(s ast.Stmt, g gctx) {
	kind := KOther
	ast.Inspect(s, func(n ast.Node) bool {
		switch n := n.(type) {
		case *ast.CallExpr:
			if fn := x.c.Callee(n); fn != nil && fn.Pkg() != nil && fn.Pkg().Path() == load.PkgDecorator {
				switch fn.Name() {
				case "restoreNode", "applyDecorations", "applySpace", "applyLiteral", "restoreObject", "restoreScope", "restoreIdent", "addCommentField":
					kind = KOpaque
				}
			}
		case *ast.AssignStmt:
			for _, l := range n.Lhs {
				if x.tracked(l) {
					kind = KOpaque
				}
			}
		case *ast.IncDecStmt:
			if x.tracked(n.X) {
				kind = KOpaque
			}
		}
		return true
	})
	x.emit(Event{Kind: kind, Expr: x.c.ExprStr(stmtExpr(s))}, g, s.Pos())
}

func stmtExpr(s ast.Stmt) ast.Expr {
	switch s := s.(type) {
	case *ast.ExprStmt:
		return s.X
	case *ast.AssignStmt:
		if len(s.Lhs) > 0 {
			return s.Lhs[0]
		}
	}
	return &ast.Ident{Name: fmt.Sprintf("%T", s)}
}

// tracked: writes rooted at r, out or n.
func (x *restoreX) tracked(e ast.Expr) bool {
	for {
		switch v := e.(type) {
		case *ast.SelectorExpr:
			e = v.X
		case *ast.IndexExpr:
			e = v.X
		case *ast.StarExpr:
			e = v.X
		case *ast.ParenExpr:
			e = v.X
		case *ast.Ident:
			o := x.c.ObjOf(v)
			return o != nil && (o == x.recv || o == x.out || o == x.n)
		default:
			return false
		}
	}
}

func (x *restoreX) assign(s *ast.AssignStmt, g gctx) {
	c := x.c
	if len(s.Lhs) == len(s.Rhs) && len(s.Lhs) > 1 {
		// tuple assignment: a, b = x, y — the right-hand sides here are side-effect free or single calls
		for i := range s.Lhs {
			x.assign(&ast.AssignStmt{Lhs: []ast.Expr{s.Lhs[i]}, TokPos: s.TokPos, Tok: s.Tok, Rhs: []ast.Expr{s.Rhs[i]}}, g)
		}
		return
	}
	if len(s.Lhs) != 1 || len(s.Rhs) != 1 {
		x.other(s, g)
		return
	}
	lhs, rhs := s.Lhs[0], s.Rhs[0]

	// out := &ast.T{}
	if s.Tok == token.DEFINE {
		if id, ok := lhs.(*ast.Ident); ok {
			if tn, ok := c.allocOf(rhs); ok && x.out == nil {
				x.out = c.Info.Defs[id]
				x.emit(Event{Kind: KAlloc, Field: tn}, g, s.Pos())
				return
			}
			// sel := r.restoreIdent(...)
			if call, ok := rhs.(*ast.CallExpr); ok {
				if fn := c.Callee(call); IsMethod(fn, load.PkgDecorator, "FileRestorer", "restoreIdent") {
					ev := Event{Kind: KSpecial, Name: "restoreIdent", Field: id.Name}
					if len(call.Args) == 5 {
						ev.Dup = c.ExprStr(call.Args[4])
						if p, ok := c.Path(call.Args[0], x.n); ok {
							ev.Src = p
						}
					}
					x.emit(ev, g, s.Pos())
					return
				}
			}
		}
		if id, ok := lhs.(*ast.Ident); ok {
			if sn, ok := x.snapOf(rhs); ok {
				if x.snap == nil {
					x.snap = map[types.Object]cursorSnap{}
				}
				x.snap[c.Info.Defs[id]] = sn
				x.emit(Event{Kind: KOther, Expr: id.Name + " := cursor snapshot"}, g, s.Pos())
				return
			}
		}
		x.other(s, g)
		return
	}

	// r.cursor += ...
	if x.isRecvField(lhs, "cursor") {
		// r.cursor = <snapshot + token.Pos(E)> taken at the current cursor is `r.cursor += token.Pos(E)`
		if s.Tok == token.ASSIGN {
			if sn, ok := x.snapOf(rhs); ok && sn.plus != nil && sn.adv == x.nAdv {
				x.cursorAssign(&ast.AssignStmt{Lhs: s.Lhs, TokPos: s.TokPos, Tok: token.ADD_ASSIGN, Rhs: []ast.Expr{sn.plus}}, sn.plus, g)
				if id, ok := rhs.(*ast.Ident); ok {
					for _, ev := range x.pending[c.ObjOf(id)] {
						x.emit(ev, g, s.Pos())
					}
					delete(x.pending, c.ObjOf(id))
				}
				return
			}
		}
		x.cursorAssign(s, rhs, g)
		return
	}

	// map registration: r.Ast.Nodes[k] = v
	if ix, ok := lhs.(*ast.IndexExpr); ok && s.Tok == token.ASSIGN {
		if p, ok := c.Path(ix.X, x.recv); ok {
			x.emit(Event{Kind: KMapReg, Name: p, Src: x.operand(ix.Index), Expr: x.operand(rhs)}, g, s.Pos())
			return
		}
		// out.M[k] = conv(v) handled by rangeStmt
	}

	// writes to out.*
	if p, ok := c.Path(lhs, x.out); ok && p != "" && s.Tok == token.ASSIGN {
		x.outStore(s, p, rhs, g)
		return
	}
	x.other(s, g)
}

// operand renders n / out / out.X symbolically.
func (x *restoreX) operand(e ast.Expr) string {
	if p, ok := x.c.Path(e, x.n); ok {
		if p == "" {
			return "n"
		}
		return "n." + p
	}
	if p, ok := x.c.Path(e, x.out); ok {
		if p == "" {
			return "out"
		}
		return "out." + p
	}
	return x.c.ExprStr(e)
}

// AllocOf recognises &pkg.T{} and returns T.
func (c *Ctx) AllocOf(e ast.Expr) (string, bool) { return c.allocOf(e) }

func (c *Ctx) allocOf(e ast.Expr) (string, bool) {
	u, ok := e.(*ast.UnaryExpr)
	if !ok || u.Op != token.AND {
		return "", false
	}
	cl, ok := u.X.(*ast.CompositeLit)
	if !ok || len(cl.Elts) != 0 {
		return "", false
	}
	_, tn := NamedTypeName(c.Info.TypeOf(cl))
	return tn, tn != ""
}

func (x *restoreX) cursorAssign(s *ast.AssignStmt, rhs ast.Expr, g gctx) {
	c := x.c
	if s.Tok != token.ADD_ASSIGN {
		x.emit(Event{Kind: KAdvance, Expr: s.Tok.String() + " " + c.ExprStr(rhs)}, g, s.Pos())
		return
	}
	// a local that holds the width of a token (`colon := token.Pos(len(token.COLON.String()))`)
	if id, ok := ast.Unparen(rhs).(*ast.Ident); ok {
		if def := c.singleDefExpr(id); def != nil {
			rhs = ast.Unparen(def)
		}
	}
	// token.Pos(len(<tok>.String())) | token.Pos(len(n.F)) | token.Pos(n.Length)
	if conv, ok := rhs.(*ast.CallExpr); ok && len(conv.Args) == 1 && c.isTokenPosType(conv.Fun) {
		arg := conv.Args[0]
		if lc, ok := arg.(*ast.CallExpr); ok && len(lc.Args) == 1 {
			if id, ok := lc.Fun.(*ast.Ident); ok && id.Name == "len" {
				if _, isB := c.Info.Uses[id].(*types.Builtin); isB {
					inner := lc.Args[0]
					// <tok>.String()
					if sc, ok := inner.(*ast.CallExpr); ok && len(sc.Args) == 0 {
						if se, ok := sc.Fun.(*ast.SelectorExpr); ok && se.Sel.Name == "String" {
							if fn := c.Callee(sc); fn != nil && fn.Pkg() != nil && fn.Pkg().Path() == "go/token" {
								x.emit(Event{Kind: KAdvance, Token: x.tokenExpr(se.X), Reads: c.Reads(se.X, x.n)}, g, s.Pos())
								return
							}
						}
					}
					if p, ok := c.Path(inner, x.n); ok {
						x.emit(Event{Kind: KAdvance, Src: p}, g, s.Pos())
						return
					}
				}
			}
		}
		if p, ok := c.Path(arg, x.n); ok {
			x.emit(Event{Kind: KAdvance, Expr: "n." + p, Reads: []string{p}}, g, s.Pos())
			return
		}
	}
	x.emit(Event{Kind: KAdvance, Expr: "+= " + c.ExprStr(rhs)}, g, s.Pos())
}

func (c *Ctx) isTokenPosType(e ast.Expr) bool {
	tv, ok := c.Info.Types[e]
	if !ok || !tv.IsType() {
		return false
	}
	pkg, name := NamedTypeName(tv.Type)
	return pkg == "go/token" && name == "Pos"
}

// tokenExpr normalises a token expression: token.X constants as "token.X", field reads as
// "n.F", function literals printed.
func (x *restoreX) tokenExpr(e ast.Expr) string { return x.c.TokenStr(e) }

func (x *restoreX) outStore(s *ast.AssignStmt, field string, rhs ast.Expr, g gctx) {
	c := x.c
	// position stores
	if x.isRecvField(rhs, "cursor") {
		x.emit(Event{Kind: KPosStore, Field: field, Expr: "cursor"}, g, s.Pos())
		return
	}
	if id, ok := rhs.(*ast.Ident); ok {
		if sn, ok := x.snap[c.ObjOf(id)]; ok {
			switch {
			case sn.plus == nil && sn.adv == x.nAdv:
				x.emit(Event{Kind: KPosStore, Field: field, Expr: "cursor"}, g, s.Pos())
			case sn.plus != nil && sn.adv == x.nAdv:
				// the value the cursor will have after the pending advance: emitted right after it
				if x.pending == nil {
					x.pending = map[types.Object][]Event{}
				}
				x.pending[c.ObjOf(id)] = append(x.pending[c.ObjOf(id)], Event{Kind: KPosStore, Field: field, Expr: "cursor"})
			default:
				x.emit(Event{Kind: KOpaque, Field: field, Expr: "position taken from a stale cursor snapshot " + id.Name}, g, s.Pos())
			}
			return
		}
	}
	if se, ok := rhs.(*ast.SelectorExpr); ok {
		if cst, ok := c.Info.Uses[se.Sel].(*types.Const); ok && cst.Pkg() != nil && cst.Pkg().Path() == "go/token" && cst.Name() == "NoPos" {
			x.emit(Event{Kind: KPosStore, Field: field, Expr: "NoPos"}, g, s.Pos())
			return
		}
	}
	// Init
	if tn, ok := c.allocOf(rhs); ok {
		x.emit(Event{Kind: KInit, Field: field, Expr: tn}, g, s.Pos())
		return
	}
	// conversions with assertion
	if ev, ok := x.conversion(rhs); ok {
		ev.Field = field
		x.emit(ev, g, s.Pos())
		return
	}
	// append(out.F, conv(v)) handled in rangeStmt; here: plain value
	if tracked := x.hasTrackedCall(rhs); tracked {
		x.emit(Event{Kind: KOpaque, Field: field, Expr: c.ExprStr(rhs)}, g, s.Pos())
		return
	}
	ev := Event{Kind: KValue, Field: field, Expr: c.ExprStr(rhs), Reads: c.Reads(rhs, x.n)}
	if p, ok := c.Path(rhs, x.n); ok {
		ev.Src = p
	}
	x.emit(ev, g, s.Pos())
}

func (x *restoreX) hasTrackedCall(e ast.Expr) bool {
	found := false
	ast.Inspect(e, func(n ast.Node) bool {
		if call, ok := n.(*ast.CallExpr); ok {
			if fn := x.c.Callee(call); fn != nil && fn.Pkg() != nil && fn.Pkg().Path() == load.PkgDecorator {
				found = true
			}
		}
		return true
	})
	return found
}

// conversion recognises r.restoreNode(src, "T","F","Ty", dup).(X), r.restoreObject(src),
// r.restoreScope(src). src may be n.F or the loop variable (Src is then the loop's source).
func (x *restoreX) conversion(e ast.Expr) (Event, bool) {
	c := x.c
	assert := ""
	if ta, ok := e.(*ast.TypeAssertExpr); ok && ta.Type != nil {
		assert = c.ExprStr(ta.Type)
		e = ta.X
	}
	call, ok := e.(*ast.CallExpr)
	if !ok {
		return Event{}, false
	}
	fn := c.Callee(call)
	switch {
	case IsMethod(fn, load.PkgDecorator, "FileRestorer", "restoreNode") && len(call.Args) == 5:
		ev := Event{Kind: KChild, Assert: assert, Dup: c.ExprStr(call.Args[4]), Expr: x.operand(call.Args[0])}
		if p, ok := c.Path(call.Args[0], x.n); ok {
			ev.Src = p
		}
		for i := 0; i < 3; i++ {
			if sl, ok := c.StringLitS(call.Args[1+i]); ok {
				ev.Lit[i] = sl
			} else {
				ev.Lit[i] = "«" + c.ExprStr(call.Args[1+i]) + "»"
			}
		}
		return ev, true
	case IsMethod(fn, load.PkgDecorator, "FileRestorer", "restoreObject") && len(call.Args) == 1 && assert == "":
		ev := Event{Kind: KObj, Expr: x.operand(call.Args[0])}
		if p, ok := c.Path(call.Args[0], x.n); ok {
			ev.Src = p
		}
		return ev, true
	case IsMethod(fn, load.PkgDecorator, "FileRestorer", "restoreScope") && len(call.Args) == 1 && assert == "":
		ev := Event{Kind: KScope, Expr: x.operand(call.Args[0])}
		if p, ok := c.Path(call.Args[0], x.n); ok {
			ev.Src = p
		}
		return ev, true
	}
	return Event{}, false
}

// call handles expression statements.
func (x *restoreX) call(call *ast.CallExpr, g gctx) bool {
	c := x.c
	fn := c.Callee(call)
	switch {
	case IsMethod(fn, load.PkgDecorator, "FileRestorer", "applySpace") && len(call.Args) == 3:
		name, _ := c.StringLitS(call.Args[1])
		ev := Event{Kind: KSpace, Name: name, NodeArg: x.operand(call.Args[0])}
		if p, ok := c.Path(call.Args[2], x.n); ok {
			ev.Src = p
		} else {
			ev.Src = "«" + c.ExprStr(call.Args[2]) + "»"
		}
		x.emit(ev, g, call.Pos())
		return true
	case IsMethod(fn, load.PkgDecorator, "FileRestorer", "applyDecorations") && len(call.Args) == 4:
		name, ok := c.StringLitS(call.Args[1])
		if !ok {
			name = "«" + c.ExprStr(call.Args[1]) + "»"
		}
		ev := Event{Kind: KDec, Name: name, NodeArg: x.operand(call.Args[0])}
		if p, ok := c.Path(call.Args[2], x.n); ok {
			ev.Src = p
		} else {
			ev.Src = "«" + c.ExprStr(call.Args[2]) + "»"
		}
		switch c.ExprStr(call.Args[3]) {
		case "true":
			ev.End = true
		case "false":
		default:
			ev.Expr = "end=" + c.ExprStr(call.Args[3])
		}
		x.emit(ev, g, call.Pos())
		return true
	case IsMethod(fn, load.PkgDecorator, "FileRestorer", "applyLiteral") && len(call.Args) == 1:
		ev := Event{Kind: KLiteral}
		if p, ok := c.Path(call.Args[0], x.n); ok {
			ev.Src = p
		} else {
			ev.Src = "«" + c.ExprStr(call.Args[0]) + "»"
		}
		x.emit(ev, g, call.Pos())
		return true
	}
	return false
}

// rangeStmt: lists and maps.
func (x *restoreX) rangeStmt(s *ast.RangeStmt, g gctx) {
	c := x.c
	// a loop over a short literal list of expressions (for _, v := range []T{a, b, c} { … }) is the
	// body once per element, with v standing for the element
	if cl, ok := ast.Unparen(s.X).(*ast.CompositeLit); ok && len(cl.Elts) > 0 && len(cl.Elts) <= 8 {
		if vid, ok := s.Value.(*ast.Ident); ok {
			if kid, isID := s.Key.(*ast.Ident); s.Key == nil || (isID && kid.Name == "_") {
				vObj := c.Info.Defs[vid]
				plain := true
				for _, el := range cl.Elts {
					if _, isKV := el.(*ast.KeyValueExpr); isKV {
						plain = false
					}
				}
				if vObj != nil && plain {
					if c.Subst == nil {
						c.Subst = map[types.Object]ast.Expr{}
					}
					prev, had := c.Subst[vObj]
					for _, el := range cl.Elts {
						c.Subst[vObj] = el
						x.stmts(s.Body.List, g)
					}
					if had {
						c.Subst[vObj] = prev
					} else {
						delete(c.Subst, vObj)
					}
					return
				}
			}
		}
	}
	src, ok := c.Path(s.X, x.n)
	if !ok || len(s.Body.List) != 1 {
		x.other(s, g)
		return
	}
	as, ok := s.Body.List[0].(*ast.AssignStmt)
	if !ok || len(as.Lhs) != 1 || len(as.Rhs) != 1 || as.Tok != token.ASSIGN {
		x.other(s, g)
		return
	}
	var vObj, kObj types.Object
	if id, ok := s.Value.(*ast.Ident); ok {
		vObj = c.Info.Defs[id]
	}
	if id, ok := s.Key.(*ast.Ident); ok && id.Name != "_" {
		kObj = c.Info.Defs[id]
	}
	// list: out.F = append(out.F, conv(v).(X))
	if field, ok := c.Path(as.Lhs[0], x.out); ok {
		if ap, ok := as.Rhs[0].(*ast.CallExpr); ok && len(ap.Args) == 2 {
			if id, ok := ap.Fun.(*ast.Ident); ok && id.Name == "append" {
				if _, isB := c.Info.Uses[id].(*types.Builtin); isB {
					base, okb := c.Path(ap.Args[0], x.out)
					if ev, okc := x.conversion(ap.Args[1]); okc && okb && base == field && x.isVar(callArg0(ap.Args[1]), vObj) && kObj == nil {
						ev.Kind = KList
						ev.Field = field
						ev.Src = src
						x.emit(ev, g, s.Pos())
						return
					}
				}
			}
		}
	}
	// map: out.F[k] = conv(v)
	if ix, ok := as.Lhs[0].(*ast.IndexExpr); ok {
		if field, ok := c.Path(ix.X, x.out); ok {
			if kid, ok := ix.Index.(*ast.Ident); ok && kObj != nil && c.ObjOf(kid) == kObj {
				if ev, okc := x.conversion(as.Rhs[0]); okc && x.isVar(callArg0(as.Rhs[0]), vObj) {
					ev.Expr = ev.Kind // Child / Obj
					ev.Kind = KMap
					ev.Field = field
					ev.Src = src
					x.emit(ev, g, s.Pos())
					return
				}
			}
		}
	}
	x.other(s, g)
}

func callArg0(e ast.Expr) ast.Expr {
	if ta, ok := e.(*ast.TypeAssertExpr); ok {
		e = ta.X
	}
	if call, ok := e.(*ast.CallExpr); ok && len(call.Args) > 0 {
		return call.Args[0]
	}
	return nil
}

func (x *restoreX) isVar(e ast.Expr, obj types.Object) bool {
	id, ok := e.(*ast.Ident)
	return ok && obj != nil && x.c.ObjOf(id) == obj
}

// singleDefExpr: the defining expression of a local variable that is defined once (x := E) and
// never assigned again; nil otherwise.
func (c *Ctx) singleDefExpr(id *ast.Ident) ast.Expr {
	obj := c.Info.Uses[id]
	if obj == nil {
		return nil
	}
	if v, ok := obj.(*types.Var); !ok || v.IsField() || v.Parent() == nil || v.Parent() == c.Pkg.Types.Scope() {
		return nil
	}
	var def ast.Expr
	n := 0
	for _, f := range c.Pkg.Syntax {
		if !(f.Pos() <= obj.Pos() && obj.Pos() <= f.End()) {
			continue
		}
		ast.Inspect(f, func(m ast.Node) bool {
			switch s := m.(type) {
			case *ast.AssignStmt:
				for i, l := range s.Lhs {
					lid, ok := l.(*ast.Ident)
					if !ok {
						continue
					}
					if c.Info.Defs[lid] == obj || c.Info.Uses[lid] == obj {
						n++
						if s.Tok == token.DEFINE && len(s.Lhs) == len(s.Rhs) {
							def = s.Rhs[i]
						} else {
							def = nil
							n++
						}
					}
				}
			case *ast.IncDecStmt:
				if lid, ok := s.X.(*ast.Ident); ok && c.Info.Uses[lid] == obj {
					n += 2
				}
			case *ast.UnaryExpr:
				if lid, ok := s.X.(*ast.Ident); ok && s.Op == token.AND && c.Info.Uses[lid] == obj {
					n += 2
				}
			}
			return true
		})
	}
	if n != 1 {
		return nil
	}
	return def
}
