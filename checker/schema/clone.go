package schema

import (
	"go/ast"
	"go/token"
	"go/types"

	"dstverif/load"
)

// clone-side extractor (dst.Clone) and listing extractor (dstutil.decorations).

type cloneX struct {
	c   *Ctx
	n   types.Object
	out types.Object
	evs []Event
	// valueCopy: the case starts with `out := *n` (every field copied shallowly; reference fields
	// share storage with the original until they are overwritten) and returns &out
	valueCopy bool
}

// freshEmpty: an expression that is a new empty slice: T(nil), T{}, make(T, 0[, cap]).
func (c *Ctx) freshEmpty(e ast.Expr) bool {
	switch v := ast.Unparen(e).(type) {
	case *ast.CompositeLit:
		_, isSlice := c.Info.TypeOf(v).Underlying().(*types.Slice)
		return isSlice && len(v.Elts) == 0
	case *ast.CallExpr:
		if tv, ok := c.Info.Types[v.Fun]; ok && tv.IsType() && len(v.Args) == 1 {
			_, isSlice := tv.Type.Underlying().(*types.Slice)
			return isSlice && c.Info.Types[v.Args[0]].IsNil()
		}
		if id, ok := v.Fun.(*ast.Ident); ok && id.Name == "make" && len(v.Args) >= 2 {
			if _, isB := c.Info.Uses[id].(*types.Builtin); isB {
				tv := c.Info.Types[v.Args[1]]
				return tv.Value != nil && tv.Value.String() == "0"
			}
		}
	}
	return false
}

func ExtractClone(c *Ctx) (*Sibling, error) {
	fd := load.FuncDecl(c.Pkg, "", "Clone")
	s, err := newSibling(c, "clone", fd)
	if err != nil {
		return nil, err
	}
	for _, tn := range s.Order {
		cs := s.Cases[tn]
		x := &cloneX{c: c, n: cs.NObj}
		c.ComputeSubst(cs.Clause.Body, nil)
		x.stmts(cs.Clause.Body, gctx{})
		c.Subst = nil
		cs.Events = x.evs
	}
	return s, nil
}

func (x *cloneX) emit(e Event, g gctx, pos token.Pos) {
	g.apply(&e)
	e.Pos = pos
	x.evs = append(x.evs, e)
}

func (x *cloneX) stmts(list []ast.Stmt, g gctx) {
	for _, s := range list {
		x.stmt(s, g)
	}
}

func (x *cloneX) other(s ast.Stmt, g gctx) {
	kind := KOther
	ast.Inspect(s, func(n ast.Node) bool {
		switch n := n.(type) {
		case *ast.CallExpr:
			if fn := x.c.Callee(n); fn != nil && fn.Pkg() != nil && fn.Pkg().Path() == load.PkgDst {
				kind = KOpaque
			}
		case *ast.AssignStmt:
			for _, l := range n.Lhs {
				if x.tracked(l) {
					kind = KOpaque
				}
			}
		case *ast.IncDecStmt:
			if x.tracked(n.X) {
				kind = KOpaque
			}
		}
		return true
	})
	x.emit(Event{Kind: kind, Expr: x.c.ExprStr(stmtExpr(s))}, g, s.Pos())
}

func (x *cloneX) tracked(e ast.Expr) bool {
	for {
		switch v := e.(type) {
		case *ast.SelectorExpr:
			e = v.X
		case *ast.IndexExpr:
			e = v.X
		case *ast.StarExpr:
			e = v.X
		case *ast.ParenExpr:
			e = v.X
		case *ast.Ident:
			o := x.c.ObjOf(v)
			return o != nil && (o == x.out || o == x.n)
		default:
			return false
		}
	}
}

func (x *cloneX) stmt(s ast.Stmt, g gctx) {
	c := x.c
	switch s := s.(type) {
	case *ast.AssignStmt:
		x.assign(s, g)
	case *ast.IfStmt:
		if s.Init != nil {
			x.stmt(s.Init, g)
		}
		cond := c.ExprStr(s.Cond)
		x.stmts(s.Body.List, g.with(cond, false))
		switch el := s.Else.(type) {
		case *ast.BlockStmt:
			x.stmts(el.List, g.with(cond, true))
		case *ast.IfStmt:
			x.stmt(el, g.with(cond, true))
		}
	case *ast.RangeStmt:
		x.rangeStmt(s, g)
	case *ast.ReturnStmt:
		ex := ""
		if len(s.Results) == 1 {
			ex = c.ExprStr(s.Results[0])
			if id, ok := s.Results[0].(*ast.Ident); ok && x.out != nil && c.ObjOf(id) == x.out && !x.valueCopy {
				ex = "out"
			}
			if u, ok := s.Results[0].(*ast.UnaryExpr); ok && u.Op == token.AND && x.valueCopy {
				if id, ok := u.X.(*ast.Ident); ok && c.ObjOf(id) == x.out {
					ex = "out"
				}
			}
		}
		x.emit(Event{Kind: KRet, Expr: ex}, g, s.Pos())
	case *ast.BlockStmt:
		x.stmts(s.List, g)
	case *ast.EmptyStmt:
	default:
		x.other(s, g)
	}
}

// conversion: Clone(src).(X) | CloneObject(src) | CloneScope(src)
func (x *cloneX) conversion(e ast.Expr) (Event, ast.Expr, bool) {
	c := x.c
	assert := ""
	if ta, ok := e.(*ast.TypeAssertExpr); ok && ta.Type != nil {
		assert = c.ExprStr(ta.Type)
		e = ta.X
	}
	call, ok := e.(*ast.CallExpr)
	if !ok || len(call.Args) != 1 {
		return Event{}, nil, false
	}
	fn := c.Callee(call)
	var ev Event
	switch {
	case IsFunc(fn, load.PkgDst, "Clone"):
		ev = Event{Kind: KChild, Assert: assert}
	case IsFunc(fn, load.PkgDst, "CloneObject") && assert == "":
		ev = Event{Kind: KObj}
	case IsFunc(fn, load.PkgDst, "CloneScope") && assert == "":
		ev = Event{Kind: KScope}
	default:
		return Event{}, nil, false
	}
	if p, ok := c.Path(call.Args[0], x.n); ok {
		ev.Src = p
	}
	ev.Expr = c.ExprStr(call.Args[0])
	return ev, call.Args[0], true
}

func (x *cloneX) assign(s *ast.AssignStmt, g gctx) {
	c := x.c
	if len(s.Lhs) == len(s.Rhs) && len(s.Lhs) > 1 {
		for i := range s.Lhs {
			x.assign(&ast.AssignStmt{Lhs: []ast.Expr{s.Lhs[i]}, TokPos: s.TokPos, Tok: s.Tok, Rhs: []ast.Expr{s.Rhs[i]}}, g)
		}
		return
	}
	if len(s.Lhs) != 1 || len(s.Rhs) != 1 {
		x.other(s, g)
		return
	}
	lhs, rhs := s.Lhs[0], s.Rhs[0]
	if s.Tok == token.DEFINE {
		if id, ok := lhs.(*ast.Ident); ok && x.out == nil {
			if tn, ok := c.allocOf(rhs); ok {
				x.out = c.Info.Defs[id]
				x.emit(Event{Kind: KAlloc, Field: tn}, g, s.Pos())
				return
			}
			// out := *n
			if st, ok := rhs.(*ast.StarExpr); ok {
				if p, okp := c.Path(st.X, x.n); okp && p == "" {
					_, tn := NamedTypeName(c.Info.TypeOf(rhs))
					x.out = c.Info.Defs[id]
					x.valueCopy = true
					x.emit(Event{Kind: KAlloc, Field: tn, Name: "value-copy"}, g, s.Pos())
					return
				}
			}
		}
		x.other(s, g)
		return
	}
	field, ok := c.Path(lhs, x.out)
	if !ok || field == "" || s.Tok != token.ASSIGN {
		x.other(s, g)
		return
	}
	if tn, ok := c.allocOf(rhs); ok {
		x.emit(Event{Kind: KInit, Field: field, Expr: tn}, g, s.Pos())
		return
	}
	if ev, _, ok := x.conversion(rhs); ok {
		ev.Field = field
		x.emit(ev, g, s.Pos())
		return
	}
	// out.F = h(n.F) with h a list-clone helper: `var out []T; for _, v := range list { out =
	// append(out, Clone(v).(T)) }; return out` — the same as the inline loop onto the fresh node
	if call, ok := rhs.(*ast.CallExpr); ok && len(call.Args) == 1 {
		if src, oks := c.Path(call.Args[0], x.n); oks {
			if ev, okh := x.listCloneHelper(call); okh {
				ev.Field, ev.Src = field, src
				x.emit(ev, g, s.Pos())
				return
			}
		}
	}
	// out.Decs.X = append(out.Decs.X, n.Decs.X...)
	if ap, ok := rhs.(*ast.CallExpr); ok {
		if id, ok := ap.Fun.(*ast.Ident); ok && id.Name == "append" {
			if _, isB := c.Info.Uses[id].(*types.Builtin); isB {
				ev := Event{Kind: KDec, Field: field}
				if len(ap.Args) == 2 && ap.Ellipsis.IsValid() {
					base, okb := c.Path(ap.Args[0], x.out)
					src, oks := c.Path(ap.Args[1], x.n)
					if okb && oks {
						ev.Src = src
						ev.Expr = "append(out." + base + ", n." + src + "...)"
						if base == field && !x.valueCopy {
							ev.Name = "fresh-append"
						}
						if x.valueCopy {
							ev.Expr += " (out is a value copy of *n: out." + base + " is n's own list)"
						}
						x.emit(ev, g, s.Pos())
						return
					}
					if oks && c.freshEmpty(ap.Args[0]) {
						ev.Src = src
						ev.Expr = "append(<new empty list>, n." + src + "...)"
						ev.Name = "fresh-append"
						x.emit(ev, g, s.Pos())
						return
					}
				}
				ev.Kind = KValue
				ev.Expr = c.ExprStr(rhs)
				ev.Reads = c.Reads(rhs, x.n)
				x.emit(ev, g, s.Pos())
				return
			}
		}
	}
	ev := Event{Kind: KValue, Field: field, Expr: c.ExprStr(rhs), Reads: c.Reads(rhs, x.n)}
	if p, ok := c.Path(rhs, x.n); ok {
		ev.Src = p
	}
	if field == "Decs.Before" || field == "Decs.After" {
		ev.Kind = KSpace
		ev.Name = field[len("Decs."):]
	}
	x.emit(ev, g, s.Pos())
}

func (x *cloneX) rangeStmt(s *ast.RangeStmt, g gctx) {
	c := x.c
	src, ok := c.Path(s.X, x.n)
	if !ok || len(s.Body.List) != 1 {
		x.other(s, g)
		return
	}
	as, ok := s.Body.List[0].(*ast.AssignStmt)
	if !ok || len(as.Lhs) != 1 || len(as.Rhs) != 1 || as.Tok != token.ASSIGN {
		x.other(s, g)
		return
	}
	var vObj, kObj types.Object
	if id, ok := s.Value.(*ast.Ident); ok {
		vObj = c.Info.Defs[id]
	}
	if id, ok := s.Key.(*ast.Ident); ok && id.Name != "_" {
		kObj = c.Info.Defs[id]
	}
	isV := func(e ast.Expr) bool {
		id, ok := e.(*ast.Ident)
		return ok && vObj != nil && c.ObjOf(id) == vObj
	}
	if field, ok := c.Path(as.Lhs[0], x.out); ok && kObj == nil {
		if ap, ok := as.Rhs[0].(*ast.CallExpr); ok && len(ap.Args) == 2 && !ap.Ellipsis.IsValid() {
			if id, ok := ap.Fun.(*ast.Ident); ok && id.Name == "append" {
				if _, isB := c.Info.Uses[id].(*types.Builtin); isB {
					base, okb := c.Path(ap.Args[0], x.out)
					if ev, arg, okc := x.conversion(ap.Args[1]); okc && okb && base == field && isV(arg) {
						ev.Expr = ev.Kind
						ev.Kind = KList
						ev.Field, ev.Src = field, src
						x.emit(ev, g, s.Pos())
						return
					}
				}
			}
		}
	}
	if ix, ok := as.Lhs[0].(*ast.IndexExpr); ok && kObj != nil {
		if field, ok := c.Path(ix.X, x.out); ok {
			if kid, ok := ix.Index.(*ast.Ident); ok && c.ObjOf(kid) == kObj {
				if ev, arg, okc := x.conversion(as.Rhs[0]); okc && isV(arg) {
					ev.Expr = ev.Kind
					ev.Kind = KMap
					ev.Field, ev.Src = field, src
					x.emit(ev, g, s.Pos())
					return
				}
			}
		}
	}
	x.other(s, g)
}

// ---------------------------------------------------------------------------------------------
// listing: dstutil.decorations(n) (before, after, points)

func ExtractListing(c *Ctx) (*Sibling, error) {
	fd := load.FuncDecl(c.Pkg, "", "decorations")
	s, err := newSibling(c, "listing", fd)
	if err != nil {
		return nil, err
	}
	// named results
	var before, after, points types.Object
	if fd.Type.Results != nil {
		for _, f := range fd.Type.Results.List {
			for _, nm := range f.Names {
				switch nm.Name {
				case "before":
					before = c.Info.Defs[nm]
				case "after":
					after = c.Info.Defs[nm]
				case "points":
					points = c.Info.Defs[nm]
				}
			}
		}
	}
	for _, tn := range s.Order {
		cs := s.Cases[tn]
		var evs []Event
		c.ComputeSubst(cs.Clause.Body, nil)
		var body []ast.Stmt
		for _, st := range cs.Clause.Body {
			if as, ok := st.(*ast.AssignStmt); ok && as.Tok == token.ASSIGN && len(as.Lhs) == len(as.Rhs) && len(as.Lhs) > 1 {
				for i := range as.Lhs {
					body = append(body, &ast.AssignStmt{Lhs: []ast.Expr{as.Lhs[i]}, TokPos: as.TokPos, Tok: as.Tok, Rhs: []ast.Expr{as.Rhs[i]}})
				}
				continue
			}
			if as, ok := st.(*ast.AssignStmt); ok && as.Tok == token.DEFINE && len(as.Lhs) == 1 {
				if id, ok := as.Lhs[0].(*ast.Ident); ok {
					if _, inlined := c.Subst[c.Info.Defs[id]]; inlined {
						continue // an alias local that is seen through
					}
				}
			}
			body = append(body, st)
		}
		for _, st := range body {
			ev := Event{Kind: KOpaque, Pos: st.Pos(), Expr: c.ExprStr(stmtExpr(st))}
			if as, ok := st.(*ast.AssignStmt); ok && as.Tok == token.ASSIGN && len(as.Lhs) == 1 && len(as.Rhs) == 1 {
				if id, ok := as.Lhs[0].(*ast.Ident); ok {
					obj := c.ObjOf(id)
					switch {
					case obj != nil && (obj == before || obj == after):
						name := "Before"
						if obj == after {
							name = "After"
						}
						if p, ok := c.Path(as.Rhs[0], cs.NObj); ok {
							ev = Event{Kind: KSpace, Name: name, Src: p, Pos: st.Pos()}
						}
					case obj != nil && obj == points:
						if ap, ok := as.Rhs[0].(*ast.CallExpr); ok && len(ap.Args) == 2 {
							if fid, ok := ap.Fun.(*ast.Ident); ok && fid.Name == "append" {
								if bid, ok := ap.Args[0].(*ast.Ident); ok && c.ObjOf(bid) == points {
									if cl, ok := ap.Args[1].(*ast.CompositeLit); ok && len(cl.Elts) == 2 {
										_, tname := NamedTypeName(c.Info.TypeOf(cl))
										name, okn := StringLit(cl.Elts[0])
										p, okp := c.Path(cl.Elts[1], cs.NObj)
										if tname == "DecorationPoint" && okn && okp {
											ev = Event{Kind: KDec, Name: name, Src: p, Pos: st.Pos()}
										}
									}
								}
							}
						}
					}
				}
			}
			evs = append(evs, ev)
		}
		c.Subst = nil
		cs.Events = evs
	}
	return s, nil
}

// listCloneHelper recognises a call of a same-package function
//
//	func h(list []T) []T { var out []T; for _, v := range list { out = append(out, Clone(v).(T)) }; return out }
//
// and returns the KList event of the equivalent inline loop.
func (x *cloneX) listCloneHelper(call *ast.CallExpr) (Event, bool) {
	c := x.c
	fn := c.Callee(call)
	if fn == nil || fn.Pkg() != c.Pkg.Types {
		return Event{}, false
	}
	for _, h := range load.AllFuncDecls(c.Pkg) {
		if c.Info.Defs[h.Name] != types.Object(fn) || h.Body == nil || h.Recv != nil || len(h.Body.List) != 3 {
			continue
		}
		if h.Type.Params == nil || len(h.Type.Params.List) != 1 || len(h.Type.Params.List[0].Names) != 1 {
			return Event{}, false
		}
		param := c.Info.Defs[h.Type.Params.List[0].Names[0]]
		ds, ok0 := h.Body.List[0].(*ast.DeclStmt)
		rs, ok1 := h.Body.List[1].(*ast.RangeStmt)
		ret, ok2 := h.Body.List[2].(*ast.ReturnStmt)
		if !ok0 || !ok1 || !ok2 || len(ret.Results) != 1 || len(rs.Body.List) != 1 {
			return Event{}, false
		}
		gd, ok := ds.Decl.(*ast.GenDecl)
		if !ok || gd.Tok != token.VAR || len(gd.Specs) != 1 {
			return Event{}, false
		}
		vs := gd.Specs[0].(*ast.ValueSpec)
		if len(vs.Names) != 1 || len(vs.Values) != 0 {
			return Event{}, false
		}
		outObj := c.Info.Defs[vs.Names[0]]
		if rid, ok := ret.Results[0].(*ast.Ident); !ok || c.ObjOf(rid) != outObj {
			return Event{}, false
		}
		if xid, ok := rs.X.(*ast.Ident); !ok || c.ObjOf(xid) != param {
			return Event{}, false
		}
		if kid, ok := rs.Key.(*ast.Ident); rs.Key != nil && (!ok || kid.Name != "_") {
			return Event{}, false
		}
		vid, ok := rs.Value.(*ast.Ident)
		if !ok {
			return Event{}, false
		}
		as, ok := rs.Body.List[0].(*ast.AssignStmt)
		if !ok || len(as.Lhs) != 1 || len(as.Rhs) != 1 || as.Tok != token.ASSIGN {
			return Event{}, false
		}
		if lid, ok := as.Lhs[0].(*ast.Ident); !ok || c.ObjOf(lid) != outObj {
			return Event{}, false
		}
		ap, ok := as.Rhs[0].(*ast.CallExpr)
		if !ok || len(ap.Args) != 2 || ap.Ellipsis.IsValid() {
			return Event{}, false
		}
		if id, ok := ap.Fun.(*ast.Ident); !ok || id.Name != "append" {
			return Event{}, false
		}
		if bid, ok := ap.Args[0].(*ast.Ident); !ok || c.ObjOf(bid) != outObj {
			return Event{}, false
		}
		ev, arg, okc := x.conversion(ap.Args[1])
		if !okc {
			return Event{}, false
		}
		if aid, ok := arg.(*ast.Ident); !ok || c.ObjOf(aid) != c.Info.Defs[vid] {
			return Event{}, false
		}
		ev.Expr = ev.Kind
		ev.Kind = KList
		return ev, true
	}
	return Event{}, false
}
