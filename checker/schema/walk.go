package schema

import (
	"fmt"
	"go/ast"
	"go/token"
	"go/types"

	"dstverif/load"
)

// walk extractor: dst.Walk and (as oracle) go/ast.Walk. A list helper is a function of the same
// package whose body is exactly `for _, x := range list { Walk(v, x) }`.

// ExtractWalk extracts the Walk function of the ctx package.
func ExtractWalk(c *Ctx, name string) (*Sibling, error) {
	fd := load.FuncDecl(c.Pkg, "", "Walk")
	var frame *ast.FuncDecl
	if fd != nil && fd.Body != nil {
		if _, sw, _ := findTypeSwitch(fd); sw == nil {
			// the children may be walked by a helper that Walk hands (child visitor, node) to
			ast.Inspect(fd.Body, func(n ast.Node) bool {
				call, ok := n.(*ast.CallExpr)
				if !ok || len(call.Args) != 2 || frame != nil {
					return true
				}
				fn := c.Callee(call)
				if fn == nil || fn.Pkg() != c.Pkg.Types {
					return true
				}
				for _, d := range load.AllFuncDecls(c.Pkg) {
					if c.Info.Defs[d.Name] == types.Object(fn) && d.Body != nil && d.Recv == nil {
						if _, sw2, _ := findTypeSwitch(d); sw2 != nil {
							frame, fd = fd, d
						}
					}
				}
				return true
			})
		}
	}
	s, err := newSibling(c, name, fd)
	if err != nil {
		return nil, err
	}
	s.Frame = frame
	pkgPath := c.Pkg.PkgPath
	helpers := map[*types.Func]bool{}
	for _, f := range load.AllFuncDecls(c.Pkg) {
		if f.Recv != nil || f.Body == nil || len(f.Body.List) != 1 || f.Type.Params == nil {
			continue
		}
		// params: (v Visitor, list []T)
		var params []types.Object
		for _, p := range f.Type.Params.List {
			for _, nm := range p.Names {
				params = append(params, c.Info.Defs[nm])
			}
		}
		if len(params) != 2 {
			continue
		}
		listExpr, ok := listWalkLoop(c, f.Body.List[0], pkgPath, params[0])
		if !ok {
			continue
		}
		xid, ok := listExpr.(*ast.Ident)
		if !ok || c.ObjOf(xid) != params[1] {
			continue
		}
		if fn, ok := c.Info.Defs[f.Name].(*types.Func); ok {
			helpers[fn] = true
		}
	}
	// optional-child helpers: func h(v Visitor, child T) { if child != nil { Walk(v, child) } }
	optHelpers := map[*types.Func]bool{}
	for _, f := range load.AllFuncDecls(c.Pkg) {
		if f.Recv != nil || f.Body == nil || len(f.Body.List) != 1 || f.Type.Params == nil {
			continue
		}
		var params []types.Object
		for _, p := range f.Type.Params.List {
			for _, nm := range p.Names {
				params = append(params, c.Info.Defs[nm])
			}
		}
		is, ok := f.Body.List[0].(*ast.IfStmt)
		if len(params) != 2 || !ok || is.Init != nil || is.Else != nil || len(is.Body.List) != 1 {
			continue
		}
		be, ok := is.Cond.(*ast.BinaryExpr)
		if !ok || be.Op != token.NEQ {
			continue
		}
		if id, ok := be.X.(*ast.Ident); !ok || c.ObjOf(id) != params[1] {
			continue
		}
		if tv, ok := c.Info.Types[be.Y]; !ok || !tv.IsNil() {
			continue
		}
		es, ok := is.Body.List[0].(*ast.ExprStmt)
		if !ok {
			continue
		}
		call, ok := es.X.(*ast.CallExpr)
		if !ok || len(call.Args) != 2 || !IsFunc(c.Callee(call), pkgPath, "Walk") {
			continue
		}
		a0, ok0 := call.Args[0].(*ast.Ident)
		a1, ok1 := call.Args[1].(*ast.Ident)
		if !ok0 || !ok1 || c.ObjOf(a0) != params[0] || c.ObjOf(a1) != params[1] {
			continue
		}
		// the nil test is only meaningful for an interface-typed parameter
		if _, isIface := params[1].Type().Underlying().(*types.Interface); !isIface {
			continue
		}
		if fn, ok := c.Info.Defs[f.Name].(*types.Func); ok {
			optHelpers[fn] = true
		}
	}
	// visitor variable: first parameter of Walk
	var vObj types.Object
	if fd.Type.Params != nil && len(fd.Type.Params.List) > 0 && len(fd.Type.Params.List[0].Names) > 0 {
		vObj = c.Info.Defs[fd.Type.Params.List[0].Names[0]]
	}
	for _, tn := range s.Order {
		cs := s.Cases[tn]
		if cs.NObj == nil {
			// multi-type clause: body must have no statements
			for _, st := range cs.Clause.Body {
				cs.Events = append(cs.Events, Event{Kind: KOpaque, Pos: st.Pos(), Expr: "statement in multi-type case"})
			}
			continue
		}
		vs := map[types.Object]bool{}
		for _, d := range s.Chain {
			if d.Type.Params != nil && len(d.Type.Params.List) > 0 && len(d.Type.Params.List[0].Names) > 0 {
				vs[c.Info.Defs[d.Type.Params.List[0].Names[0]]] = true
			}
		}
		x := &walkX{c: c, n: cs.NObj, v: vObj, pkg: pkgPath, helpers: helpers, optHelpers: optHelpers, vs: vs}
		x.stmts(cs.Clause.Body, gctx{})
		cs.Events = x.evs
	}
	return s, nil
}

type walkX struct {
	c       *Ctx
	n, v    types.Object
	pkg     string
	helpers map[*types.Func]bool
	// optHelpers: h(v, child) walks child iff it is non-nil (an interface-typed field only)
	optHelpers map[*types.Func]bool
	vs         map[types.Object]bool // visitor parameters of the functions the switch continues in
	evs        []Event
}

func (x *walkX) emit(e Event, g gctx, pos token.Pos) {
	g.apply(&e)
	e.Pos = pos
	x.evs = append(x.evs, e)
}

func (x *walkX) stmts(list []ast.Stmt, g gctx) {
	for _, s := range list {
		x.stmt(s, g)
	}
}

func (x *walkX) isV(e ast.Expr) bool {
	id, ok := e.(*ast.Ident)
	if !ok {
		return false
	}
	o := x.c.ObjOf(id)
	return o != nil && (o == x.v || x.vs[o])
}

func (x *walkX) stmt(s ast.Stmt, g gctx) {
	c := x.c
	switch s := s.(type) {
	case *ast.ExprStmt:
		if call, ok := s.X.(*ast.CallExpr); ok && len(call.Args) == 2 && x.isV(call.Args[0]) {
			fn := c.Callee(call)
			if p, okp := c.Path(call.Args[1], x.n); okp && p != "" {
				if IsFunc(fn, x.pkg, "Walk") {
					x.emit(Event{Kind: KChild, Src: p, Field: p}, g, s.Pos())
					return
				}
				if fn != nil && x.helpers[fn.Origin()] {
					x.emit(Event{Kind: KList, Src: p, Field: p}, g, s.Pos())
					return
				}
				if fn != nil && x.optHelpers[fn.Origin()] {
					// only for fields of interface type (a nil pointer in an interface is not nil)
					if _, isIface := c.Info.TypeOf(call.Args[1]).Underlying().(*types.Interface); isIface {
						x.emit(Event{Kind: KChild, Src: p, Field: p}, g.with("n."+p+" != nil", false), s.Pos())
						return
					}
				}
			}
		}
		x.other(s, g)
	case *ast.IfStmt:
		if s.Init != nil {
			x.stmt(s.Init, g)
		}
		cond := c.ExprStr(s.Cond)
		x.stmts(s.Body.List, g.with(cond, false))
		switch el := s.Else.(type) {
		case *ast.BlockStmt:
			x.stmts(el.List, g.with(cond, true))
		case *ast.IfStmt:
			x.stmt(el, g.with(cond, true))
		}
	case *ast.RangeStmt:
		listExpr, ok := listWalkLoop(c, s, x.pkg, x.v)
		for o := range x.vs {
			if !ok {
				listExpr, ok = listWalkLoop(c, s, x.pkg, o)
			}
		}
		if ok {
			if p, okp := c.Path(listExpr, x.n); okp && p != "" {
				x.emit(Event{Kind: KList, Src: p, Field: p}, g, s.Pos())
				return
			}
		}
		// a map of children (Package.Files)
		if p, ok := c.Path(s.X, x.n); ok && len(s.Body.List) == 1 {
			if _, isMap := c.Info.TypeOf(s.X).Underlying().(*types.Map); isMap {
				if vid, ok := s.Value.(*ast.Ident); ok {
					if es, ok := s.Body.List[0].(*ast.ExprStmt); ok {
						if call, ok := es.X.(*ast.CallExpr); ok && len(call.Args) == 2 && x.isV(call.Args[0]) && IsFunc(c.Callee(call), x.pkg, "Walk") {
							if aid, ok := call.Args[1].(*ast.Ident); ok && c.ObjOf(aid) == c.Info.Defs[vid] {
								x.emit(Event{Kind: KMap, Src: p, Field: p}, g, s.Pos())
								return
							}
						}
					}
				}
			}
		}
		x.other(s, g)
	case *ast.ForStmt:
		listExpr, ok := listWalkLoop(c, s, x.pkg, x.v)
		for o := range x.vs {
			if !ok {
				listExpr, ok = listWalkLoop(c, s, x.pkg, o)
			}
		}
		if ok {
			if p, okp := c.Path(listExpr, x.n); okp && p != "" {
				x.emit(Event{Kind: KList, Src: p, Field: p}, g, s.Pos())
				return
			}
		}
		x.other(s, g)
	case *ast.EmptyStmt:
	case *ast.ReturnStmt:
		x.emit(Event{Kind: KRet}, g, s.Pos())
	default:
		x.other(s, g)
	}
}

// listWalkLoop: st walks every element of a slice once, in order, and does nothing else:
//
//	for _, x := range L { Walk(v, x) }            for i := range L { Walk(v, L[i]) }
//	for i := 0; i < len(L); i++ { Walk(v, L[i]) }  for i, n := 0, len(L); i < n; i++ { Walk(v, L[i]) }
//
// It returns L.
func listWalkLoop(c *Ctx, st ast.Stmt, pkgPath string, v types.Object) (ast.Expr, bool) {
	walkOf := func(body *ast.BlockStmt) (ast.Expr, bool) {
		if len(body.List) != 1 {
			return nil, false
		}
		es, ok := body.List[0].(*ast.ExprStmt)
		if !ok {
			return nil, false
		}
		call, ok := es.X.(*ast.CallExpr)
		if !ok || len(call.Args) != 2 || !IsFunc(c.Callee(call), pkgPath, "Walk") {
			return nil, false
		}
		a0, ok := call.Args[0].(*ast.Ident)
		if !ok || v == nil || c.ObjOf(a0) != v {
			return nil, false
		}
		return call.Args[1], true
	}
	switch s := st.(type) {
	case *ast.RangeStmt:
		arg, ok := walkOf(s.Body)
		if !ok {
			return nil, false
		}
		if _, isMap := c.Info.TypeOf(s.X).Underlying().(*types.Map); isMap {
			return nil, false
		}
		// value form
		if vid, ok := s.Value.(*ast.Ident); ok {
			if kid, isID := s.Key.(*ast.Ident); s.Key != nil && (!isID || kid.Name != "_") {
				return nil, false
			}
			if aid, ok := arg.(*ast.Ident); ok && c.ObjOf(aid) == c.Info.Defs[vid] {
				return s.X, true
			}
			return nil, false
		}
		// key form
		if kid, ok := s.Key.(*ast.Ident); ok && s.Value == nil {
			if ix, ok := arg.(*ast.IndexExpr); ok && c.ExprStr(ix.X) == c.ExprStr(s.X) {
				if iid, ok := ix.Index.(*ast.Ident); ok && c.ObjOf(iid) == c.Info.Defs[kid] {
					return s.X, true
				}
			}
		}
	case *ast.ForStmt:
		arg, ok := walkOf(s.Body)
		if !ok || s.Init == nil || s.Cond == nil || s.Post == nil {
			return nil, false
		}
		ix, ok := arg.(*ast.IndexExpr)
		if !ok {
			return nil, false
		}
		iid, ok := ix.Index.(*ast.Ident)
		if !ok {
			return nil, false
		}
		iObj := c.ObjOf(iid)
		list := c.ExprStr(ix.X)
		// init: i := 0  |  i, n := 0, len(L)
		init, ok := s.Init.(*ast.AssignStmt)
		if !ok || init.Tok != token.DEFINE || len(init.Lhs) != len(init.Rhs) || len(init.Lhs) > 2 {
			return nil, false
		}
		id0, ok := init.Lhs[0].(*ast.Ident)
		if !ok || c.Info.Defs[id0] != iObj || c.ExprStr(init.Rhs[0]) != "0" {
			return nil, false
		}
		bound := "len(" + list + ")"
		var nObj types.Object
		if len(init.Lhs) == 2 {
			id1, ok := init.Lhs[1].(*ast.Ident)
			if !ok || c.ExprStr(init.Rhs[1]) != bound {
				return nil, false
			}
			nObj = c.Info.Defs[id1]
		}
		// cond: i < len(L) | i < n
		be, ok := s.Cond.(*ast.BinaryExpr)
		if !ok || be.Op != token.LSS {
			return nil, false
		}
		if l, ok := be.X.(*ast.Ident); !ok || c.ObjOf(l) != iObj {
			return nil, false
		}
		okBound := c.ExprStr(be.Y) == bound
		if rid, ok := be.Y.(*ast.Ident); ok && nObj != nil && c.ObjOf(rid) == nObj {
			okBound = true
		}
		if !okBound {
			return nil, false
		}
		// post: i++
		inc, ok := s.Post.(*ast.IncDecStmt)
		if !ok || inc.Tok != token.INC {
			return nil, false
		}
		if l, ok := inc.X.(*ast.Ident); !ok || c.ObjOf(l) != iObj {
			return nil, false
		}
		return ix.X, true
	}
	return nil, false
}

func (x *walkX) other(s ast.Stmt, g gctx) {
	kind := KOther
	ast.Inspect(s, func(n ast.Node) bool {
		switch n := n.(type) {
		case *ast.CallExpr:
			if fn := x.c.Callee(n); fn != nil && fn.Pkg() != nil && fn.Pkg().Path() == x.pkg {
				kind = KOpaque
			}
			// v.Visit(...) inside a case
			if se, ok := n.Fun.(*ast.SelectorExpr); ok && x.isV(se.X) {
				kind = KOpaque
			}
		case *ast.AssignStmt:
			for _, l := range n.Lhs {
				if _, ok := x.c.Path(l, x.n); ok {
					kind = KOpaque
				}
				if x.isV(l) {
					kind = KOpaque
				}
			}
		case *ast.BranchStmt, *ast.GoStmt, *ast.DeferStmt:
			kind = KOpaque
		}
		return true
	})
	x.emit(Event{Kind: kind, Expr: x.c.ExprStr(stmtExpr(s))}, g, s.Pos())
}

// ---------------------------------------------------------------------------------------------
// apply extractor: (*application).apply in dstutil and astutil.

func ExtractApply(c *Ctx, name string) (*Sibling, error) {
	fd := load.FuncDecl(c.Pkg, "application", "apply")
	s, err := newSibling(c, name, fd)
	if err != nil {
		return nil, err
	}
	recv := c.recvObj(fd)
	if s.SwitchFunc != nil {
		recv = c.recvObj(s.SwitchFunc)
	}
	pkgPath := c.Pkg.PkgPath
	for _, tn := range s.Order {
		cs := s.Cases[tn]
		if cs.NObj == nil {
			for _, st := range cs.Clause.Body {
				cs.Events = append(cs.Events, Event{Kind: KOpaque, Pos: st.Pos(), Expr: "statement in multi-type case"})
			}
			continue
		}
		for _, st := range cs.Clause.Body {
			ev := Event{Kind: KOther, Pos: st.Pos(), Expr: c.ExprStr(stmtExpr(st))}
			classify := func() {
				es, ok := st.(*ast.ExprStmt)
				if !ok {
					return
				}
				call, ok := es.X.(*ast.CallExpr)
				if !ok {
					return
				}
				fn := c.Callee(call)
				se, ok := call.Fun.(*ast.SelectorExpr)
				if !ok {
					return
				}
				if id, ok := se.X.(*ast.Ident); !ok || c.ObjOf(id) != recv {
					return
				}
				isN := func(e ast.Expr) bool { p, ok := c.Path(e, cs.NObj); return ok && p == "" }
				switch {
				case IsMethod(fn, pkgPath, "application", "apply") && len(call.Args) == 4 && isN(call.Args[0]):
					lit, okl := StringLit(call.Args[1])
					p, okp := c.Path(call.Args[3], cs.NObj)
					iter := c.ExprStr(call.Args[2])
					if okl && okp && iter == "nil" {
						ev = Event{Kind: KChild, Name: lit, Src: p, Field: p, Pos: st.Pos()}
					} else {
						ev = Event{Kind: KOpaque, Pos: st.Pos(), Expr: fmt.Sprintf("apply(%s, %s, %s, %s)", c.ExprStr(call.Args[0]), c.ExprStr(call.Args[1]), iter, c.ExprStr(call.Args[3]))}
					}
				case IsMethod(fn, pkgPath, "application", "applyList") && len(call.Args) == 2 && isN(call.Args[0]):
					if lit, ok := StringLit(call.Args[1]); ok {
						ev = Event{Kind: KList, Name: lit, Src: lit, Field: lit, Pos: st.Pos()}
					} else {
						ev = Event{Kind: KOpaque, Pos: st.Pos(), Expr: "applyList with non-literal name"}
					}
				}
			}
			classify()
			if ev.Kind == KOther {
				// any other statement mentioning the receiver or n is opaque
				ast.Inspect(st, func(n ast.Node) bool {
					if id, ok := n.(*ast.Ident); ok {
						if o := c.ObjOf(id); o != nil && (o == recv || o == cs.NObj) {
							ev.Kind = KOpaque
						}
					}
					return true
				})
			}
			cs.Events = append(cs.Events, ev)
		}
	}
	return s, nil
}
