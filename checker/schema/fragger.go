package schema

import (
	"go/ast"
	"go/token"
	"go/types"
	"strings"

	"dstverif/load"
)

// fragger-side extractor: (*fileDecorator).addNodeFragments.

type fragX struct {
	c    *Ctx
	n    types.Object
	recv types.Object
	evs  []Event
}

func ExtractFragger(c *Ctx) (*Sibling, error) {
	fd := load.FuncDecl(c.Pkg, "fileDecorator", "addNodeFragments")
	s, err := newSibling(c, "fragger", fd)
	if err != nil {
		return nil, err
	}
	recv := c.recvObj(fd)
	for _, tn := range s.Order {
		cs := s.Cases[tn]
		x := &fragX{c: c, n: cs.NObj, recv: recv}
		c.ComputeSubst(cs.Clause.Body, nil)
		c.ComputeCondLocals(cs.Clause.Body)
		x.stmts(cs.Clause.Body, gctx{})
		c.Subst = nil
		cs.Events = x.evs
	}
	return s, nil
}

func (x *fragX) emit(e Event, g gctx, pos token.Pos) {
	g.apply(&e)
	e.Pos = pos
	x.evs = append(x.evs, e)
}

func (x *fragX) stmts(list []ast.Stmt, g gctx) {
	for _, s := range list {
		x.stmt(s, g)
	}
}

func (x *fragX) stmt(s ast.Stmt, g gctx) {
	c := x.c
	switch s := s.(type) {
	case *ast.ExprStmt:
		if call, ok := s.X.(*ast.CallExpr); ok && x.call(call, g, nil, "") {
			return
		}
		x.other(s, g)
	case *ast.IfStmt:
		if s.Init != nil {
			x.stmt(s.Init, g)
		}
		cond := c.ExprStr(s.Cond)
		x.stmts(s.Body.List, g.with(cond, false))
		switch el := s.Else.(type) {
		case *ast.BlockStmt:
			x.stmts(el.List, g.with(cond, true))
		case *ast.IfStmt:
			x.stmt(el, g.with(cond, true))
		}
	case *ast.RangeStmt:
		src, ok := c.Path(s.X, x.n)
		if ok && len(s.Body.List) == 1 {
			if es, ok := s.Body.List[0].(*ast.ExprStmt); ok {
				if call, ok := es.X.(*ast.CallExpr); ok {
					var vObj types.Object
					if id, ok := s.Value.(*ast.Ident); ok {
						vObj = c.Info.Defs[id]
					}
					if vObj != nil && x.call(call, g, vObj, src) {
						if _, isMap := c.Info.TypeOf(s.X).Underlying().(*types.Map); isMap {
							last := &x.evs[len(x.evs)-1]
							last.Kind, last.Expr = KMap, KChild
						}
						return
					}
				}
			}
		}
		x.other(s, g)
	case *ast.SwitchStmt:
		// tagless switch: an if / else-if chain
		if s.Tag != nil || s.Init != nil {
			x.other(s, g)
			return
		}
		prev := g
		for _, cl := range s.Body.List {
			cc := cl.(*ast.CaseClause)
			if cc.List == nil {
				continue
			}
			var conds []string
			for _, e := range cc.List {
				conds = append(conds, x.c.ExprStr(e))
			}
			cond := strings.Join(conds, " || ")
			if len(conds) > 1 {
				cond = "(" + cond + ")"
			}
			x.stmts(cc.Body, prev.with(cond, false))
			prev = prev.with(cond, true)
		}
		for _, cl := range s.Body.List {
			if cc := cl.(*ast.CaseClause); cc.List == nil {
				x.stmts(cc.Body, prev)
			}
		}
	case *ast.BlockStmt:
		x.stmts(s.List, g)
	case *ast.EmptyStmt:
	default:
		x.other(s, g)
	}
}

func (x *fragX) other(s ast.Stmt, g gctx) {
	kind := KOther
	ast.Inspect(s, func(n ast.Node) bool {
		switch n := n.(type) {
		case *ast.CallExpr:
			if fn := x.c.Callee(n); fn != nil && fn.Pkg() != nil && fn.Pkg().Path() == load.PkgDecorator {
				kind = KOpaque
			}
		case *ast.AssignStmt:
			for _, l := range n.Lhs {
				if _, ok := x.c.Path(l, x.recv); ok {
					kind = KOpaque
				}
				if _, ok := x.c.Path(l, x.n); ok {
					kind = KOpaque
				}
			}
		case *ast.IncDecStmt:
			if _, ok := x.c.Path(n.X, x.recv); ok {
				kind = KOpaque
			}
		}
		return true
	})
	x.emit(Event{Kind: kind, Expr: x.c.ExprStr(stmtExpr(s))}, g, s.Pos())
}

func (x *fragX) isN(e ast.Expr) bool {
	p, ok := x.c.Path(e, x.n)
	return ok && p == ""
}

// posArg renders the position argument: a field path of n, "NoPos", "Pos()" / "End()".
func (x *fragX) posArg(e ast.Expr) string {
	c := x.c
	if p, ok := c.Path(e, x.n); ok {
		return p
	}
	if se, ok := e.(*ast.SelectorExpr); ok {
		if cst, ok := c.Info.Uses[se.Sel].(*types.Const); ok && cst.Pkg() != nil && cst.Pkg().Path() == "go/token" && cst.Name() == "NoPos" {
			return "NoPos"
		}
	}
	if call, ok := e.(*ast.CallExpr); ok && len(call.Args) == 0 {
		if se, ok := call.Fun.(*ast.SelectorExpr); ok && x.isN(se.X) {
			return se.Sel.Name + "()"
		}
	}
	return "«" + c.ExprStr(e) + "»"
}

func (x *fragX) call(call *ast.CallExpr, g gctx, loopVar types.Object, loopSrc string) bool {
	c := x.c
	fn := c.Callee(call)
	isM := func(name string) bool { return IsMethod(fn, load.PkgDecorator, "fileDecorator", name) }
	switch {
	case isM("addNodeFragments") && len(call.Args) == 1:
		if loopVar != nil {
			if id, ok := call.Args[0].(*ast.Ident); ok && c.ObjOf(id) == loopVar {
				x.emit(Event{Kind: KList, Src: loopSrc, Field: loopSrc}, g, call.Pos())
				return true
			}
			return false
		}
		if p, ok := c.Path(call.Args[0], x.n); ok && p != "" {
			x.emit(Event{Kind: KChild, Src: p, Field: p}, g, call.Pos())
			return true
		}
		return false
	case loopVar != nil:
		return false
	case isM("addDecorationFragment") && len(call.Args) == 3 && x.isN(call.Args[0]):
		name, ok := StringLit(call.Args[1])
		if !ok {
			name = "«" + c.ExprStr(call.Args[1]) + "»"
		}
		x.emit(Event{Kind: KDec, Name: name, Expr: x.posArg(call.Args[2])}, g, call.Pos())
		return true
	case isM("addTokenFragment") && len(call.Args) == 3 && x.isN(call.Args[0]):
		x.emit(Event{Kind: KTok, Token: c.TokenStr(call.Args[1]), Field: x.posArg(call.Args[2]), Reads: c.Reads(call.Args[1], x.n)}, g, call.Pos())
		return true
	case isM("addStringFragment") && len(call.Args) == 3 && x.isN(call.Args[0]):
		ev := Event{Kind: KStr, Field: x.posArg(call.Args[2])}
		if p, ok := c.Path(call.Args[1], x.n); ok {
			ev.Src = p
		} else {
			ev.Src = "«" + c.ExprStr(call.Args[1]) + "»"
		}
		x.emit(ev, g, call.Pos())
		return true
	case isM("addBadFragment") && len(call.Args) == 3 && x.isN(call.Args[0]):
		x.emit(Event{Kind: KBad, Field: x.posArg(call.Args[1]), Expr: c.ExprStr(call.Args[2])}, g, call.Pos())
		return true
	}
	return false
}
