package schema

import (
	"go/ast"
	"go/token"
	"go/types"
	"strconv"
)

// InstallReaching makes ExprStr print every use of a local of fd as the expression that defined
// the value it holds at that use, so that the printed form is independent of the names and of
// the number of intermediate variables. The definition that reaches a use is the textually last
// assignment before the use whose enclosing block (or if/switch header) also encloses the use; if
// a later assignment sits in a block that does not enclose the use (a branch that may or may not
// have run) the local is left as it is. Second results are printed as ok(E) for the comma-ok
// forms and resN(E) for calls with several results. Loop variables, locals whose address is
// taken, and locals assigned inside a loop or closure other than where they are used are left
// alone. undo removes the hook.
func (c *Ctx) InstallReaching(fd *ast.FuncDecl) (undo func()) {
	return c.InstallReachingIn(fd.Body)
}

// InstallReachingIn is InstallReaching for the body of a function or function literal.
func (c *Ctx) InstallReachingIn(root *ast.BlockStmt) (undo func()) {
	type def struct {
		rhs   ast.Expr
		at    token.Pos // end of the assignment
		scope ast.Node  // innermost block/if/switch/case that contains the assignment
	}
	defs := map[types.Object][]def{}
	tainted := map[types.Object]bool{}
	obj := func(id *ast.Ident) types.Object {
		if o := c.Info.Defs[id]; o != nil {
			return o
		}
		return c.Info.Uses[id]
	}
	var stack []ast.Node
	scopeOf := func() ast.Node {
		for i := len(stack) - 1; i >= 0; i-- {
			switch stack[i].(type) {
			case *ast.BlockStmt, *ast.IfStmt, *ast.SwitchStmt, *ast.TypeSwitchStmt, *ast.CaseClause, *ast.ForStmt, *ast.RangeStmt, *ast.FuncLit:
				return stack[i]
			}
		}
		return root
	}
	// loops and function literals inside root: a definition reaches later uses in text order only
	// if no back edge (or later call) can carry another value to them, i.e. when the assignment
	// and the variable's declaration sit in the same innermost loop/literal
	var regions []ast.Node
	ast.Inspect(root, func(n ast.Node) bool {
		switch n.(type) {
		case *ast.ForStmt, *ast.RangeStmt, *ast.FuncLit:
			regions = append(regions, n)
		}
		return true
	})
	regionOf := func(p token.Pos) ast.Node {
		var best ast.Node
		for _, r := range regions {
			if r.Pos() <= p && p < r.End() {
				if best == nil || (best.Pos() <= r.Pos() && r.End() <= best.End()) {
					best = r
				}
			}
		}
		return best
	}
	// objects declared inside root (by membership, not by position: root may be a merged body
	// whose statements come from several functions)
	declaredIn := map[types.Object]bool{}
	identIn := map[*ast.Ident]bool{}
	ast.Inspect(root, func(n ast.Node) bool {
		if id, ok := n.(*ast.Ident); ok {
			identIn[id] = true
			if o := c.Info.Defs[id]; o != nil {
				declaredIn[o] = true
			}
		}
		return true
	})
	inLoopOrLit := func(o types.Object, at token.Pos) bool {
		declPos := o.Pos()
		if !declaredIn[o] {
			// declared outside root (a parameter or captured variable): any loop matters
			return regionOf(at) != nil
		}
		return regionOf(at) != regionOf(declPos)
	}
	ast.Inspect(root, func(n ast.Node) bool {
		if n == nil {
			stack = stack[:len(stack)-1]
			return true
		}
		switch s := n.(type) {
		case *ast.AssignStmt:
			for i, l := range s.Lhs {
				id, ok := l.(*ast.Ident)
				if !ok || id.Name == "_" {
					continue
				}
				o := obj(id)
				if o == nil {
					continue
				}
				if inLoopOrLit(o, s.Pos()) {
					tainted[o] = true
					continue
				}
				var rhs ast.Expr
				if s.Tok != token.DEFINE && s.Tok != token.ASSIGN {
					// x op= e  is  x = x op e
					op, known := opOfAssign[s.Tok]
					if !known || len(s.Lhs) != 1 || len(s.Rhs) != 1 {
						tainted[o] = true
						continue
					}
					defs[o] = append(defs[o], def{&ast.BinaryExpr{X: id, Op: op, Y: s.Rhs[0]}, s.End(), scopeOf()})
					continue
				}
				switch {
				case len(s.Lhs) == len(s.Rhs):
					rhs = s.Rhs[i]
				case len(s.Rhs) == 1:
					name := "res" + strconv.Itoa(i)
					switch ast.Unparen(s.Rhs[0]).(type) {
					case *ast.TypeAssertExpr, *ast.IndexExpr, *ast.UnaryExpr:
						name = "ok"
					}
					if i == 0 {
						rhs = s.Rhs[0]
					} else {
						rhs = &ast.CallExpr{Fun: &ast.Ident{Name: name}, Args: []ast.Expr{s.Rhs[0]}}
					}
				}
				if rhs == nil {
					tainted[o] = true
					continue
				}
				// allocations and literals are identities, not values: the local keeps its name from
				// there on (an opaque definition)
				switch rhs.(type) {
				case *ast.CompositeLit, *ast.FuncLit:
					rhs = nil
				}
				if u, ok := rhs.(*ast.UnaryExpr); ok && u.Op == token.AND {
					rhs = nil
				}
				defs[o] = append(defs[o], def{rhs, s.End(), scopeOf()})
			}
		case *ast.IncDecStmt:
			if id, ok := s.X.(*ast.Ident); ok {
				if o := obj(id); o != nil {
					tainted[o] = true
				}
			}
		case *ast.UnaryExpr:
			if s.Op == token.AND {
				if id, ok := s.X.(*ast.Ident); ok {
					if o := obj(id); o != nil {
						tainted[o] = true
					}
				}
			}
		case *ast.RangeStmt:
			for _, kv := range []ast.Expr{s.Key, s.Value} {
				if id, ok := kv.(*ast.Ident); ok {
					if o := obj(id); o != nil {
						tainted[o] = true
					}
				}
			}
		case *ast.ValueSpec:
			for i, id := range s.Names {
				o := obj(id)
				if o == nil {
					continue
				}
				switch {
				case inLoopOrLit(o, s.Pos()):
					tainted[o] = true
				case len(s.Values) == len(s.Names):
					rhs := s.Values[i]
					switch rhs.(type) {
					case *ast.CompositeLit, *ast.FuncLit:
						rhs = nil
					}
					defs[o] = append(defs[o], def{rhs, s.End(), scopeOf()})
				default:
					defs[o] = append(defs[o], def{nil, s.End(), scopeOf()}) // zero value: opaque
				}
			}
		}
		stack = append(stack, n)
		return true
	})
	prev := c.PosSubst
	c.PosSubst = func(id *ast.Ident) ast.Expr {
		o := c.Info.Uses[id]
		if o == nil || tainted[o] || len(defs[o]) == 0 {
			return nil
		}
		use := id.Pos()
		if !identIn[id] {
			// an identifier inside an already substituted expression keeps its own position, so
			// this only happens for synthetic nodes
			return nil
		}
		var best *def
		for i := range defs[o] {
			d := &defs[o][i]
			if d.at > use {
				continue
			}
			encloses := d.scope == ast.Node(root) || (d.scope.Pos() <= use && use <= d.scope.End())
			if !encloses {
				// a conditional assignment before the use: value unknown
				if best == nil || d.at > best.at {
					return nil
				}
				continue
			}
			if best == nil || d.at > best.at {
				best = d
			}
		}
		if best == nil {
			return nil
		}
		// a later non-enclosing assignment after best but before use was handled above only when it
		// came later in slice order; re-check
		for i := range defs[o] {
			d := &defs[o][i]
			if d.at <= use && d.at > best.at && d.scope != ast.Node(root) && !(d.scope.Pos() <= use && use <= d.scope.End()) {
				return nil
			}
		}
		return best.rhs // nil for an opaque definition: the name is kept
	}
	return func() { c.PosSubst = prev }
}

var opOfAssign = map[token.Token]token.Token{
	token.ADD_ASSIGN: token.ADD, token.SUB_ASSIGN: token.SUB, token.MUL_ASSIGN: token.MUL, token.QUO_ASSIGN: token.QUO,
	token.REM_ASSIGN: token.REM, token.AND_ASSIGN: token.AND, token.OR_ASSIGN: token.OR, token.XOR_ASSIGN: token.XOR,
	token.SHL_ASSIGN: token.SHL, token.SHR_ASSIGN: token.SHR, token.AND_NOT_ASSIGN: token.AND_NOT,
}
