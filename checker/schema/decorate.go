package schema

import (
	"fmt"
	"go/ast"
	"go/token"
	"go/types"

	"dstverif/load"
)

// decorate-side extractor: (*fileDecorator).decorateNode.

type decoX struct {
	c    *Ctx
	n    types.Object
	out  types.Object
	recv types.Object
	evs  []Event
	nd   map[types.Object]string // locals holding f.decorations[<key>]
}

func ExtractDecorate(c *Ctx) (*Sibling, error) {
	fd := load.FuncDecl(c.Pkg, "fileDecorator", "decorateNode")
	s, err := newSibling(c, "decorate", fd)
	if err != nil {
		return nil, err
	}
	recv := c.recvObj(fd)
	for _, tn := range s.Order {
		cs := s.Cases[tn]
		x := &decoX{c: c, n: cs.NObj, recv: recv}
		c.ComputeSubst(cs.Clause.Body, nil)
		x.stmts(cs.Clause.Body, gctx{}, nil, nil, "")
		c.Subst = nil
		cs.Events = x.evs
	}
	return s, nil
}

func (x *decoX) emit(e Event, g gctx, pos token.Pos) {
	g.apply(&e)
	e.Pos = pos
	x.evs = append(x.evs, e)
}

func (x *decoX) operand(e ast.Expr) string {
	if p, ok := x.c.Path(e, x.n); ok {
		if p == "" {
			return "n"
		}
		return "n." + p
	}
	if p, ok := x.c.Path(e, x.out); ok {
		if p == "" {
			return "out"
		}
		return "out." + p
	}
	return x.c.ExprStr(e)
}

// isErrReturn: `if err != nil { return nil, err }` for the given err object.
func (x *decoX) isErrReturn(s ast.Stmt, errObj types.Object) bool {
	c := x.c
	is, ok := s.(*ast.IfStmt)
	if !ok || is.Init != nil || is.Else != nil || len(is.Body.List) != 1 {
		return false
	}
	be, ok := is.Cond.(*ast.BinaryExpr)
	if !ok || be.Op != token.NEQ {
		return false
	}
	id, ok := be.X.(*ast.Ident)
	if !ok || c.ObjOf(id) != errObj {
		return false
	}
	if nid, ok := be.Y.(*ast.Ident); !ok || nid.Name != "nil" {
		return false
	}
	rs, ok := is.Body.List[0].(*ast.ReturnStmt)
	if !ok || len(rs.Results) != 2 {
		return false
	}
	if nid, ok := rs.Results[0].(*ast.Ident); !ok || nid.Name != "nil" || c.Info.Types[rs.Results[0]].IsNil() == false {
		return false
	}
	rid, ok := rs.Results[1].(*ast.Ident)
	return ok && c.ObjOf(rid) == errObj
}

// convCall recognises `v, err := f.decorateNode(parent,"T","F","Ty",src)` and friends.
func (x *decoX) convCall(s ast.Stmt) (ev Event, resObj, errObj types.Object, ok bool) {
	c := x.c
	as, isAs := s.(*ast.AssignStmt)
	if !isAs || as.Tok != token.DEFINE || len(as.Lhs) != 2 || len(as.Rhs) != 1 {
		return
	}
	call, isCall := as.Rhs[0].(*ast.CallExpr)
	if !isCall {
		return
	}
	rid, ok1 := as.Lhs[0].(*ast.Ident)
	eid, ok2 := as.Lhs[1].(*ast.Ident)
	if !ok1 || !ok2 {
		return
	}
	fn := c.Callee(call)
	isM := func(name string) bool { return IsMethod(fn, load.PkgDecorator, "fileDecorator", name) }
	switch {
	case isM("decorateNode") && len(call.Args) == 5:
		ev = Event{Kind: KChild, Parent: x.operand(call.Args[0]), Expr: x.operand(call.Args[4])}
		if p, okp := c.Path(call.Args[4], x.n); okp {
			ev.Src = p
		}
		for i := 0; i < 3; i++ {
			if sl, oks := StringLit(call.Args[1+i]); oks {
				ev.Lit[i] = sl
			} else {
				ev.Lit[i] = "«" + c.ExprStr(call.Args[1+i]) + "»"
			}
		}
	case isM("decorateObject") && len(call.Args) == 1:
		ev = Event{Kind: KObj, Expr: x.operand(call.Args[0])}
		if p, okp := c.Path(call.Args[0], x.n); okp {
			ev.Src = p
		}
	case isM("decorateScope") && len(call.Args) == 1:
		ev = Event{Kind: KScope, Expr: x.operand(call.Args[0])}
		if p, okp := c.Path(call.Args[0], x.n); okp {
			ev.Src = p
		}
	case isM("resolvePath") && len(call.Args) == 6:
		ev = Event{Kind: KPath, Expr: c.ExprStr(call.Args[0]) + "," + c.ExprStr(call.Args[1]) + "," + c.ExprStr(call.Args[2]) + "," + c.ExprStr(call.Args[3]) + "," + c.ExprStr(call.Args[4]) + "," + x.operand(call.Args[5])}
	case isM("decorateSelectorExpr") && len(call.Args) == 5:
		ev = Event{Kind: KSpecial, Name: "decorateSelectorExpr", Expr: c.ExprStr(call.Args[0]) + "," + c.ExprStr(call.Args[1]) + "," + c.ExprStr(call.Args[2]) + "," + c.ExprStr(call.Args[3]) + "," + x.operand(call.Args[4])}
	default:
		return
	}
	return ev, c.Info.Defs[rid], c.Info.Defs[eid], true
}

// stmts processes a statement list; loopV/loopK are the range variables when inside a range
// over n.<loopSrc>.
func (x *decoX) stmts(list []ast.Stmt, g gctx, loopV, loopK types.Object, loopSrc string) {
	c := x.c
	for i := 0; i < len(list); i++ {
		s := list[i]
		// conversion triple
		if ev, resObj, errObj, ok := x.convCall(s); ok {
			if i+1 < len(list) && x.isErrReturn(list[i+1], errObj) {
				ev.ErrOK = true
				i++
			}
			if ev.Kind == KSpecial {
				// followed by: if id != nil { return id, nil }
				if i+1 < len(list) {
					if is, ok := list[i+1].(*ast.IfStmt); ok && is.Else == nil && is.Init == nil && len(is.Body.List) == 1 {
						if rs, ok := is.Body.List[0].(*ast.ReturnStmt); ok && len(rs.Results) == 2 {
							if rid, ok := rs.Results[0].(*ast.Ident); ok && c.ObjOf(rid) == resObj && c.ExprStr(is.Cond) == rid.Name+" != nil" {
								ev.Field = "returned-if-non-nil"
								i++
							}
						}
					}
				}
				x.emit(ev, g, s.Pos())
				continue
			}
			// consumer
			if i+1 < len(list) {
				if x.consume(list[i+1], &ev, resObj, loopV, loopK, loopSrc) {
					i++
					x.emit(ev, g, s.Pos())
					continue
				}
			}
			ev.Kind = KOpaque
			ev.Expr = "result of conversion not stored in a recognised shape: " + ev.Expr
			x.emit(ev, g, s.Pos())
			continue
		}
		x.stmt(s, g)
	}
}

// consume matches the statement that stores the conversion result.
func (x *decoX) consume(s ast.Stmt, ev *Event, resObj, loopV, loopK types.Object, loopSrc string) bool {
	c := x.c
	as, ok := s.(*ast.AssignStmt)
	if !ok || as.Tok != token.ASSIGN || len(as.Lhs) != 1 || len(as.Rhs) != 1 {
		return false
	}
	val := func(e ast.Expr) (string, bool) {
		assert := ""
		if ta, ok := e.(*ast.TypeAssertExpr); ok && ta.Type != nil {
			assert = c.ExprStr(ta.Type)
			e = ta.X
		}
		id, ok := e.(*ast.Ident)
		if !ok || c.ObjOf(id) != resObj {
			return "", false
		}
		return assert, true
	}
	srcIsLoopVar := func() bool { return loopV != nil && ev.Expr != "" && ev.Src == "" }
	switch {
	case loopV == nil:
		// out.F = child.(X)
		field, ok := c.Path(as.Lhs[0], x.out)
		if !ok || field == "" {
			return false
		}
		assert, ok := val(as.Rhs[0])
		if !ok {
			return false
		}
		ev.Field, ev.Assert = field, assert
		return true
	case loopK == nil:
		// out.F = append(out.F, child.(X))
		field, ok := c.Path(as.Lhs[0], x.out)
		if !ok {
			return false
		}
		ap, ok := as.Rhs[0].(*ast.CallExpr)
		if !ok || len(ap.Args) != 2 {
			return false
		}
		id, ok := ap.Fun.(*ast.Ident)
		if !ok || id.Name != "append" {
			return false
		}
		if _, isB := c.Info.Uses[id].(*types.Builtin); !isB {
			return false
		}
		base, ok := c.Path(ap.Args[0], x.out)
		if !ok || base != field {
			return false
		}
		assert, ok := val(ap.Args[1])
		if !ok || !srcIsLoopVar() {
			return false
		}
		ev.Expr = ev.Kind
		ev.Kind = KList
		ev.Field, ev.Assert, ev.Src = field, assert, loopSrc
		return true
	default:
		// out.F[k] = child.(X)
		ix, ok := as.Lhs[0].(*ast.IndexExpr)
		if !ok {
			return false
		}
		field, ok := c.Path(ix.X, x.out)
		if !ok {
			return false
		}
		kid, ok := ix.Index.(*ast.Ident)
		if !ok || c.ObjOf(kid) != loopK {
			return false
		}
		assert, ok := val(as.Rhs[0])
		if !ok || !srcIsLoopVar() {
			return false
		}
		ev.Expr = ev.Kind
		ev.Kind = KMap
		ev.Field, ev.Assert, ev.Src = field, assert, loopSrc
		return true
	}
}

func (x *decoX) stmt(s ast.Stmt, g gctx) {
	c := x.c
	switch s := s.(type) {
	case *ast.AssignStmt:
		x.assign(s, g)
	case *ast.IfStmt:
		// decorations block: if nd, ok := f.decorations[n]; ok { ... }
		if x.decsBlock(s, g) {
			return
		}
		if x.decsInner(s, g) {
			return
		}
		if s.Init != nil {
			x.stmt(s.Init, g)
		}
		cond := c.ExprStr(s.Cond)
		x.stmts(s.Body.List, g.with(cond, false), nil, nil, "")
		switch el := s.Else.(type) {
		case *ast.BlockStmt:
			x.stmts(el.List, g.with(cond, true), nil, nil, "")
		case *ast.IfStmt:
			x.stmt(el, g.with(cond, true))
		}
	case *ast.RangeStmt:
		// for name, decs := range f.decorations[k] { switch name { case "P": out.Decs.P = decs … } }
		if x.decsRange(s, g) {
			return
		}
		// a loop over a literal list of expressions is its body once per element
		if cl, isLit := s.X.(*ast.CompositeLit); isLit && s.Value != nil && (s.Key == nil || c.ExprStr(s.Key) == "_") && len(cl.Elts) > 0 && len(cl.Elts) <= 8 {
			if id, isID := s.Value.(*ast.Ident); isID && c.Info.Defs[id] != nil {
				if c.Subst == nil {
					c.Subst = map[types.Object]ast.Expr{}
				}
				v := c.Info.Defs[id]
				for _, el := range cl.Elts {
					if _, kv := el.(*ast.KeyValueExpr); kv {
						x.other(s, g)
						return
					}
					c.Subst[v] = el
					x.stmts(s.Body.List, g, nil, nil, "")
				}
				delete(c.Subst, v)
				return
			}
		}
		src, ok := c.Path(s.X, x.n)
		var vObj, kObj types.Object
		if id, ok := s.Value.(*ast.Ident); ok {
			vObj = c.Info.Defs[id]
		}
		if id, ok := s.Key.(*ast.Ident); ok && id.Name != "_" {
			kObj = c.Info.Defs[id]
		}
		if !ok || vObj == nil {
			x.other(s, g)
			return
		}
		// inside: v is the source; mark by making operand(v) non-path: ev.Src=="" and Expr=="v"
		ng := g
		ng.loop = src
		x.loopBody(s.Body.List, ng, vObj, kObj, src)
	case *ast.ReturnStmt:
		ex := ""
		for i, r := range s.Results {
			if i > 0 {
				ex += ", "
			}
			if id, ok := r.(*ast.Ident); ok && x.out != nil && c.ObjOf(id) == x.out {
				ex += "out"
			} else {
				ex += c.ExprStr(r)
			}
		}
		x.emit(Event{Kind: KRet, Expr: ex}, g, s.Pos())
	case *ast.BlockStmt:
		x.stmts(s.List, g, nil, nil, "")
	case *ast.EmptyStmt:
	case *ast.ExprStmt:
		// a small same-package helper that only registers nodes in the maps is its body
		if body, undo := c.ExpandCall([]ast.Stmt{s}); len(body) > 0 && body[0] != ast.Stmt(s) && onlyMapStores(body) {
			x.stmts(body, g, nil, nil, "")
			undo()
			return
		} else {
			undo()
		}
		x.other(s, g)
	default:
		x.other(s, g)
	}
}

// onlyMapStores: every statement is an assignment `m[k] = v`.
func onlyMapStores(body []ast.Stmt) bool {
	for _, st := range body {
		as, ok := st.(*ast.AssignStmt)
		if !ok || as.Tok != token.ASSIGN {
			return false
		}
		for _, l := range as.Lhs {
			if _, ok := l.(*ast.IndexExpr); !ok {
				return false
			}
		}
	}
	return len(body) > 0
}

func (x *decoX) loopBody(list []ast.Stmt, g gctx, vObj, kObj types.Object, src string) {
	// the conversion's source must be the loop value variable
	for _, s := range list {
		if ev, _, _, ok := x.convCall(s); ok {
			_ = ev
			var arg ast.Expr
			call := s.(*ast.AssignStmt).Rhs[0].(*ast.CallExpr)
			arg = call.Args[len(call.Args)-1]
			if id, ok := arg.(*ast.Ident); !ok || x.c.ObjOf(id) != vObj {
				x.emit(Event{Kind: KOpaque, Expr: "conversion inside range over n." + src + " does not convert the range value"}, g, s.Pos())
				return
			}
		}
	}
	x.stmts(list, g, vObj, kObj, src)
}

func (x *decoX) other(s ast.Stmt, g gctx) {
	kind := KOther
	ast.Inspect(s, func(n ast.Node) bool {
		switch n := n.(type) {
		case *ast.CallExpr:
			if fn := x.c.Callee(n); fn != nil && fn.Pkg() != nil && fn.Pkg().Path() == load.PkgDecorator {
				kind = KOpaque
			}
		case *ast.AssignStmt:
			for _, l := range n.Lhs {
				if x.tracked(l) {
					kind = KOpaque
				}
			}
		case *ast.IncDecStmt:
			if x.tracked(n.X) {
				kind = KOpaque
			}
		}
		return true
	})
	x.emit(Event{Kind: kind, Expr: x.c.ExprStr(stmtExpr(s))}, g, s.Pos())
}

func (x *decoX) tracked(e ast.Expr) bool {
	for {
		switch v := e.(type) {
		case *ast.SelectorExpr:
			e = v.X
		case *ast.IndexExpr:
			e = v.X
		case *ast.StarExpr:
			e = v.X
		case *ast.ParenExpr:
			e = v.X
		case *ast.Ident:
			o := x.c.ObjOf(v)
			return o != nil && (o == x.recv || o == x.out || o == x.n)
		default:
			return false
		}
	}
}

func (x *decoX) assign(s *ast.AssignStmt, g gctx) {
	c := x.c
	if len(s.Lhs) == len(s.Rhs) && len(s.Lhs) > 1 {
		for i := range s.Lhs {
			x.assign(&ast.AssignStmt{Lhs: []ast.Expr{s.Lhs[i]}, TokPos: s.TokPos, Tok: s.Tok, Rhs: []ast.Expr{s.Rhs[i]}}, g)
		}
		return
	}
	if len(s.Lhs) != 1 || len(s.Rhs) != 1 {
		x.other(s, g)
		return
	}
	lhs, rhs := s.Lhs[0], s.Rhs[0]
	if s.Tok == token.DEFINE {
		if id, ok := lhs.(*ast.Ident); ok && x.out == nil {
			if tn, ok := c.allocOf(rhs); ok {
				x.out = c.Info.Defs[id]
				x.emit(Event{Kind: KAlloc, Field: tn}, g, s.Pos())
				return
			}
		}
		// nd := f.decorations[n] (indexing a nil map is fine: the per-node map may be absent)
		if id, ok := lhs.(*ast.Ident); ok {
			if ix, ok := rhs.(*ast.IndexExpr); ok {
				if p, ok := c.Path(ix.X, x.recv); ok && p == "decorations" {
					if x.nd == nil {
						x.nd = map[types.Object]string{}
					}
					x.nd[c.Info.Defs[id]] = x.operand(ix.Index)
					x.emit(Event{Kind: KOther, Expr: id.Name + " := decorations of " + x.operand(ix.Index)}, g, s.Pos())
					return
				}
			}
		}
		x.other(s, g)
		return
	}
	if s.Tok != token.ASSIGN {
		x.other(s, g)
		return
	}
	// map registration f.Dst.Nodes[k] = v
	if ix, ok := lhs.(*ast.IndexExpr); ok {
		if p, ok := c.Path(ix.X, x.recv); ok {
			x.emit(Event{Kind: KMapReg, Name: p, Src: x.operand(ix.Index), Expr: x.operand(rhs)}, g, s.Pos())
			return
		}
	}
	field, ok := c.Path(lhs, x.out)
	if !ok || field == "" {
		x.other(s, g)
		return
	}
	// spacing: out.Decs.Before = f.before[n]
	if ix, ok := rhs.(*ast.IndexExpr); ok {
		if p, ok := c.Path(ix.X, x.recv); ok && (p == "before" || p == "after") {
			name := ""
			switch field {
			case "Decs.Before":
				name = "Before"
			case "Decs.After":
				name = "After"
			default:
				name = "«" + field + "»"
			}
			x.emit(Event{Kind: KSpace, Name: name, Src: p + "[" + x.operand(ix.Index) + "]", Field: field}, g, s.Pos())
			return
		}
	}
	if tn, ok := c.allocOf(rhs); ok {
		x.emit(Event{Kind: KInit, Field: field, Expr: tn}, g, s.Pos())
		return
	}
	hasCall := false
	ast.Inspect(rhs, func(n ast.Node) bool {
		if call, ok := n.(*ast.CallExpr); ok {
			if fn := c.Callee(call); fn != nil && fn.Pkg() != nil && fn.Pkg().Path() == load.PkgDecorator {
				hasCall = true
			}
		}
		return true
	})
	if hasCall {
		x.emit(Event{Kind: KOpaque, Field: field, Expr: c.ExprStr(rhs)}, g, s.Pos())
		return
	}
	ev := Event{Kind: KValue, Field: field, Expr: c.ExprStr(rhs), Reads: c.Reads(rhs, x.n)}
	if p, ok := c.Path(rhs, x.n); ok {
		ev.Src = p
	}
	x.emit(ev, g, s.Pos())
}

// decsRange recognises the decorations of a node copied in a loop over its map of points:
//
//	for name, decs := range f.decorations[n] {
//		switch name {
//		case "Start":
//			out.Decs.Start = decs
//		…
//		}
//	}
//
// Every point name is a distinct constant and its clause stores the loop's value into one field:
// a map has each key once, so each field is written at most once, whatever the iteration order.
func (x *decoX) decsRange(s *ast.RangeStmt, g gctx) bool {
	c := x.c
	ix, ok := ast.Unparen(s.X).(*ast.IndexExpr)
	if !ok || s.Tok != token.DEFINE {
		return false
	}
	if p, ok := c.Path(ix.X, x.recv); !ok || p != "decorations" {
		return false
	}
	kid, ok1 := s.Key.(*ast.Ident)
	vid, ok2 := s.Value.(*ast.Ident)
	if !ok1 || !ok2 || len(s.Body.List) != 1 {
		return false
	}
	sw, ok := s.Body.List[0].(*ast.SwitchStmt)
	if !ok || sw.Init != nil || sw.Tag == nil {
		return false
	}
	if tid, ok := ast.Unparen(sw.Tag).(*ast.Ident); !ok || c.ObjOf(tid) != c.Info.Defs[kid] {
		return false
	}
	type pt struct {
		name, field string
		pos         token.Pos
	}
	var pts []pt
	seen := map[string]bool{}
	for _, cl := range sw.Body.List {
		cc := cl.(*ast.CaseClause)
		if len(cc.List) != 1 || len(cc.Body) != 1 {
			return false
		}
		name, ok := StringLit(cc.List[0])
		if !ok || seen[name] {
			return false
		}
		seen[name] = true
		as, ok := cc.Body[0].(*ast.AssignStmt)
		if !ok || as.Tok != token.ASSIGN || len(as.Lhs) != 1 || len(as.Rhs) != 1 {
			return false
		}
		rid, ok := as.Rhs[0].(*ast.Ident)
		if !ok || c.ObjOf(rid) != c.Info.Defs[vid] {
			return false
		}
		field, ok := c.Path(as.Lhs[0], x.out)
		if !ok {
			return false
		}
		pts = append(pts, pt{name, field, as.Pos()})
	}
	key := x.operand(ix.Index)
	for _, p := range pts {
		x.emit(Event{Kind: KDec, Name: p.name, Field: p.field, Src: "decorations[" + key + "]"}, g, p.pos)
	}
	return true
}

// decsBlock recognises
//
//	if nd, ok := f.decorations[n]; ok {
//		if decs, ok := nd["Start"]; ok { out.Decs.Start = decs }
//		...
//	}
func (x *decoX) decsBlock(s *ast.IfStmt, g gctx) bool {
	c := x.c
	init, ok := s.Init.(*ast.AssignStmt)
	if !ok || init.Tok != token.DEFINE || len(init.Lhs) != 2 || len(init.Rhs) != 1 || s.Else != nil {
		return false
	}
	ix, ok := init.Rhs[0].(*ast.IndexExpr)
	if !ok {
		return false
	}
	p, ok := c.Path(ix.X, x.recv)
	if !ok || p != "decorations" {
		return false
	}
	ndID, ok1 := init.Lhs[0].(*ast.Ident)
	okID, ok2 := init.Lhs[1].(*ast.Ident)
	if !ok1 || !ok2 {
		return false
	}
	if cid, ok := s.Cond.(*ast.Ident); !ok || c.ObjOf(cid) != c.Info.Defs[okID] {
		return false
	}
	key := x.operand(ix.Index)
	ndObj := c.Info.Defs[ndID]
	for _, inner := range s.Body.List {
		is, ok := inner.(*ast.IfStmt)
		good := false
		if ok && is.Else == nil && len(is.Body.List) == 1 {
			if ii, ok := is.Init.(*ast.AssignStmt); ok && ii.Tok == token.DEFINE && len(ii.Lhs) == 2 && len(ii.Rhs) == 1 {
				if iix, ok := ii.Rhs[0].(*ast.IndexExpr); ok {
					if base, ok := iix.X.(*ast.Ident); ok && c.ObjOf(base) == ndObj {
						if name, ok := StringLit(iix.Index); ok {
							dID, _ := ii.Lhs[0].(*ast.Ident)
							oID, _ := ii.Lhs[1].(*ast.Ident)
							cid, _ := is.Cond.(*ast.Ident)
							if as, ok := is.Body.List[0].(*ast.AssignStmt); ok && dID != nil && oID != nil && cid != nil && c.ObjOf(cid) == c.Info.Defs[oID] &&
								as.Tok == token.ASSIGN && len(as.Lhs) == 1 && len(as.Rhs) == 1 {
								if rid, ok := as.Rhs[0].(*ast.Ident); ok && c.ObjOf(rid) == c.Info.Defs[dID] {
									if field, ok := c.Path(as.Lhs[0], x.out); ok {
										x.emit(Event{Kind: KDec, Name: name, Field: field, Src: "decorations[" + key + "]"}, g, is.Pos())
										good = true
									}
								}
							}
						}
					}
				}
			}
		}
		// the unconditional form: out.Decs.X = nd["X"] (a missing key reads as the nil list, which
		// is what the field holds anyway)
		if as, ok := inner.(*ast.AssignStmt); ok && !good && as.Tok == token.ASSIGN && len(as.Lhs) == 1 && len(as.Rhs) == 1 {
			if iix, ok := as.Rhs[0].(*ast.IndexExpr); ok {
				if base, ok := iix.X.(*ast.Ident); ok && c.ObjOf(base) == ndObj {
					if name, ok := StringLit(iix.Index); ok {
						if field, ok := c.Path(as.Lhs[0], x.out); ok {
							x.emit(Event{Kind: KDec, Name: name, Field: field, Src: "decorations[" + key + "]"}, g, as.Pos())
							good = true
						}
					}
				}
			}
		}
		if !good {
			x.emit(Event{Kind: KOpaque, Expr: "unrecognised statement in decorations block"}, g, inner.Pos())
		}
	}
	return true
}

// ExtractDecorateSelector extracts decorateSelectorExpr as a pseudo case (n = the selector).
func ExtractDecorateSelector(c *Ctx) (*Case, error) {
	fd := load.FuncDecl(c.Pkg, "fileDecorator", "decorateSelectorExpr")
	if fd == nil || fd.Body == nil {
		return nil, fmt.Errorf("decorateSelectorExpr not found")
	}
	var nobj types.Object
	for _, p := range fd.Type.Params.List {
		for _, nm := range p.Names {
			if nm.Name == "n" {
				nobj = c.Info.Defs[nm]
			}
		}
	}
	if nobj == nil {
		return nil, fmt.Errorf("decorateSelectorExpr: no parameter n")
	}
	x := &decoX{c: c, n: nobj, recv: c.recvObj(fd)}
	x.stmts(fd.Body.List, gctx{}, nil, nil, "")
	return &Case{Type: "SelectorExpr→Ident", Events: x.evs, Pos: fd.Pos(), NObj: nobj}, nil
}

// decsInner recognises `if decs, ok := nd["Start"]; ok { out.Decs.Start = decs }` for a local nd
// defined as f.decorations[<key>].
func (x *decoX) decsInner(is *ast.IfStmt, g gctx) bool {
	c := x.c
	if is.Else != nil || len(is.Body.List) != 1 {
		return false
	}
	ii, ok := is.Init.(*ast.AssignStmt)
	if !ok || ii.Tok != token.DEFINE || len(ii.Lhs) != 2 || len(ii.Rhs) != 1 {
		return false
	}
	iix, ok := ii.Rhs[0].(*ast.IndexExpr)
	if !ok {
		return false
	}
	base, ok := iix.X.(*ast.Ident)
	if !ok {
		return false
	}
	key, ok := x.nd[c.ObjOf(base)]
	if !ok {
		return false
	}
	name, ok := StringLit(iix.Index)
	if !ok {
		return false
	}
	dID, _ := ii.Lhs[0].(*ast.Ident)
	oID, _ := ii.Lhs[1].(*ast.Ident)
	cid, _ := is.Cond.(*ast.Ident)
	as, ok := is.Body.List[0].(*ast.AssignStmt)
	if !ok || dID == nil || oID == nil || cid == nil || c.ObjOf(cid) != c.Info.Defs[oID] || as.Tok != token.ASSIGN || len(as.Lhs) != 1 || len(as.Rhs) != 1 {
		return false
	}
	rid, ok := as.Rhs[0].(*ast.Ident)
	if !ok || c.ObjOf(rid) != c.Info.Defs[dID] {
		return false
	}
	field, ok := c.Path(as.Lhs[0], x.out)
	if !ok {
		return false
	}
	x.emit(Event{Kind: KDec, Name: name, Field: field, Src: "decorations[" + key + "]"}, g, is.Pos())
	return true
}
