package schema

import (
	"dstverif/load"
)

// Siblings holds all extracted siblings.
type Siblings struct {
	ByName       map[string]*Sibling
	RestoreIdent *Case
	// RestoreIdentErr: restoreIdent lost its overall shape
	RestoreIdentErr error
	Ctx             map[string]*Ctx // by package path
}

// CtxFor builds an extractor context for a package.
func CtxFor(prog *load.Program, path string) *Ctx {
	pkg := prog.Pkg(path)
	return &Ctx{Prog: prog, Pkg: pkg, Info: pkg.TypesInfo}
}

// ExtractAll extracts every sibling; an error means a sibling lost its overall shape (no type
// switch, function missing).
func ExtractAll(prog *load.Program) (*Siblings, error) {
	out := &Siblings{ByName: map[string]*Sibling{}, Ctx: map[string]*Ctx{}}
	dc := CtxFor(prog, load.PkgDecorator)
	rc := CtxFor(prog, load.PkgDst)
	uc := CtxFor(prog, load.PkgDstutil)
	ac := CtxFor(prog, "go/ast")
	tc := CtxFor(prog, load.PkgAstutil)
	for _, c := range []*Ctx{dc, rc, uc, ac, tc} {
		out.Ctx[c.Pkg.PkgPath] = c
	}
	type ext struct {
		name string
		f    func() (*Sibling, error)
	}
	for _, e := range []ext{
		{"restore", func() (*Sibling, error) { return ExtractRestore(dc) }},
		{"fragger", func() (*Sibling, error) { return ExtractFragger(dc) }},
		{"decorate", func() (*Sibling, error) { return ExtractDecorate(dc) }},
		{"clone", func() (*Sibling, error) { return ExtractClone(rc) }},
		{"listing", func() (*Sibling, error) { return ExtractListing(uc) }},
		{"walk", func() (*Sibling, error) { return ExtractWalk(rc, "walk") }},
		{"astwalk", func() (*Sibling, error) { return ExtractWalk(ac, "astwalk") }},
		{"apply", func() (*Sibling, error) { return ExtractApply(uc, "apply") }},
		{"astapply", func() (*Sibling, error) { return ExtractApply(tc, "astapply") }},
	} {
		s, err := e.f()
		if err != nil {
			// only the rules that read this sibling are affected: they find an empty one and report
			// the lost shape (R-SHAPE through RCover / SiblingOK)
			s = &Sibling{Name: e.name, Cases: map[string]*Case{}, MultiCases: map[string][]string{}, Err: err}
		}
		out.ByName[e.name] = s
	}
	ri, err := ExtractRestoreIdent(dc)
	if err != nil {
		ri = &Case{Type: "Ident→SelectorExpr"}
		out.RestoreIdentErr = err
	}
	out.RestoreIdent = ri
	return out, nil
}
