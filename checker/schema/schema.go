// Package schema extracts, from the typed syntax of each sibling implementation of the node
// schema (fragger, decorate, restore, clone, listing, walk, apply), an ordered list of events per
// node-type case. Callees are resolved through go/types, field paths through the case variable's
// object, never through name text.
package schema

import (
	"bytes"
	"fmt"
	"go/ast"
	"go/constant"
	"go/printer"
	"go/token"
	"go/types"
	"regexp"
	"strconv"
	"strings"

	"golang.org/x/tools/go/packages"
	"golang.org/x/tools/go/types/typeutil"

	"dstverif/load"
)

// Event kinds.
const (
	KAlloc    = "Alloc"    // out := &pkg.T{}                       Field=T
	KInit     = "Init"     // out.F = &pkg.T{}                      Field=F, Expr=T
	KMapReg   = "MapReg"   // x.M[key] = val                        Name=M ("Ast.Nodes"), Src=key, Expr=val
	KSpace    = "Space"    // applySpace / Decs.Before copy         Name=Before|After, Src=path read
	KDec      = "Dec"      // decoration render / copy / fragment   Name, Src, End
	KPosStore = "PosStore" // out.P = r.cursor | token.NoPos         Field=P, Expr="cursor"|"NoPos"
	KAdvance  = "Advance"  // r.cursor += ...                       Token | Src (string field) | Expr
	KLiteral  = "Literal"  // applyLiteral(n.F)                     Src=F
	KValue    = "Value"    // out.F = expr(n)                       Field=F, Expr, Reads
	KChild    = "Child"    // single child conversion               Field (written), Src (read), Assert, Lit
	KList     = "List"     // range + conversion + append           Field, Src, Assert, Lit
	KMap      = "Map"      // make + range + conversion             Field, Src, Assert, Lit, Expr=callee
	KObj      = "Obj"      // object conversion                     Field, Src
	KScope    = "Scope"    // scope conversion                      Field, Src
	KTok      = "Tok"      // fragger: addTokenFragment             Token, Field(pos field or "")
	KStr      = "Str"      // fragger: addStringFragment            Src (value field), Field(pos field)
	KBad      = "Bad"      // fragger: addBadFragment               Field(pos), Expr(length)
	KSpecial  = "Special"  // call to the hand-written special case Name=callee
	KRet      = "Ret"      // return                                Expr
	KErrCheck = "ErrCheck" // if err != nil { return nil, err }
	KPath     = "Path"     // decorate: resolvePath block            Field
	KOther    = "Other"    // statement without tracked effect
	KOpaque   = "Opaque"   // statement with tracked effects in an unrecognised shape
)

// Event is one classified effect of a case body, in source order.
type Event struct {
	Kind    string
	Name    string
	Field   string
	Src     string
	Expr    string
	Token   string
	Guard   string // normalised conjunction of the enclosing conditions ("" = unconditional)
	End     bool
	Assert  string
	Lit     [3]string // literal (parentName, parentField, parentFieldType) arguments
	Dup     string    // allowDuplicate argument, restore only
	NodeArg string    // first argument of applyDecorations/applySpace ("out", "n", ...)
	Parent  string    // decorate: first argument (parent) of decorateNode
	Reads   []string  // n.* paths read by Expr
	ErrOK   bool      // decorate: call's error result is checked and returned directly after
	Else    bool      // event sits in the else branch of Guard
	Loop    string    // enclosing range source path
	Pos     token.Pos
}

func (e Event) String() string {
	var b strings.Builder
	b.WriteString(e.Kind)
	add := func(k, v string) {
		if v != "" {
			fmt.Fprintf(&b, " %s=%s", k, v)
		}
	}
	add("name", e.Name)
	add("field", e.Field)
	add("src", e.Src)
	add("tok", e.Token)
	add("expr", e.Expr)
	add("assert", e.Assert)
	if e.End {
		b.WriteString(" end")
	}
	if e.Guard != "" {
		if e.Else {
			add("else-of", e.Guard)
		} else {
			add("if", e.Guard)
		}
	}
	return b.String()
}

// Case is one `case *pkg.T:` arm.
type Case struct {
	Type   string // node type name
	Events []Event
	Pos    token.Pos
	Clause *ast.CaseClause
	NObj   types.Object // the case variable
}

// Sibling is one implementation of the schema.
type Sibling struct {
	Name        string
	Pkg         *packages.Package
	Func        *ast.FuncDecl
	Switch      *ast.TypeSwitchStmt
	Cases       map[string]*Case
	Order       []string
	MultiCases  map[string][]string // walk: `case *A, *B:` arms with several types
	DefaultBody []ast.Stmt
	HasDefault  bool
	Prologue    []ast.Stmt
	Epilogue    []ast.Stmt
	NodePkg     string // package of the case types ("go/ast" or dst)
	NilCase     *ast.CaseClause
	// Frame: the function that calls Func when the type switch lives in a helper (walk: Walk
	// visits the node and closes with Visit(nil), a helper walks the children); nil otherwise.
	Frame *ast.FuncDecl
	// Chain: further functions the type switch continues in (default arm hands on)
	Chain []*ast.FuncDecl
	// SwitchFunc: the helper that holds the type switch when Func only calls it (nil: Func itself)
	SwitchFunc *ast.FuncDecl
	// Err: the extraction failed (the function lost its overall shape); Cases is empty then
	Err error
}

// Ctx carries what the extractors need.
type Ctx struct {
	Prog *load.Program
	Pkg  *packages.Package
	Info *types.Info
	// Subst maps single-assignment locals of the body being analysed to their (pure) defining
	// expressions: hoisted sub-expressions and aliases are seen through.
	Subst map[types.Object]ast.Expr
	// CondLocals: locals holding a conditional constant (see ComputeCondLocals).
	CondLocals map[types.Object]string
	// PosSubst, when set, resolves a use of a local to the expression that defines its value at
	// that use (see InstallReaching); consulted before Subst.
	PosSubst func(id *ast.Ident) ast.Expr
	// CallHook, when set, may replace a call by an expression when printing (a predicate of the
	// package by the condition under which it returns true)
	CallHook func(call *ast.CallExpr) ast.Expr
	// TypeSwitchConds: path conditions include the type test of an enclosing type-switch clause
	// (ok(x.(T))); set by rules that reason about which dynamic types reach a statement.
	TypeSwitchConds bool
}

// ComputeSubst finds the locals of body that are defined exactly once by `x := e` (or a tuple
// define of equal arity), never written again, and whose e is pure: no calls other than
// conversions, len/cap and position/validity accessors, and no read of mutable receiver state
// (fields named in mutable). It replaces c.Subst.
func (c *Ctx) ComputeSubst(body []ast.Stmt, mutable map[string]bool) {
	defs := map[types.Object]ast.Expr{}
	writes := map[types.Object]int{}
	note := func(id *ast.Ident) types.Object {
		if o := c.Info.Defs[id]; o != nil {
			return o
		}
		return c.Info.Uses[id]
	}
	for _, st := range body {
		ast.Inspect(st, func(n ast.Node) bool {
			switch s := n.(type) {
			case *ast.AssignStmt:
				for i, l := range s.Lhs {
					id, ok := l.(*ast.Ident)
					if !ok || id.Name == "_" {
						continue
					}
					o := note(id)
					if o == nil {
						continue
					}
					writes[o]++
					if s.Tok == token.DEFINE && len(s.Lhs) == len(s.Rhs) {
						defs[o] = s.Rhs[i]
					}
				}
			case *ast.IncDecStmt:
				if id, ok := s.X.(*ast.Ident); ok {
					if o := note(id); o != nil {
						writes[o] += 2
					}
				}
			case *ast.UnaryExpr:
				if s.Op == token.AND {
					if id, ok := s.X.(*ast.Ident); ok {
						if o := note(id); o != nil {
							writes[o] += 2 // address taken: may be written through the pointer
						}
					}
				}
			case *ast.RangeStmt:
				for _, kv := range []ast.Expr{s.Key, s.Value} {
					if id, ok := kv.(*ast.Ident); ok {
						if o := note(id); o != nil {
							writes[o] += 2
						}
					}
				}
			case *ast.TypeSwitchStmt:
				return true
			}
			return true
		})
	}
	c.Subst = map[types.Object]ast.Expr{}
	for o, e := range defs {
		if writes[o] != 1 || !c.pureExpr(e, mutable) {
			continue
		}
		// allocations and composite literals are identities, not values: never inline
		if u, ok := e.(*ast.UnaryExpr); ok && u.Op == token.AND {
			if _, isLit := u.X.(*ast.CompositeLit); isLit {
				continue
			}
		}
		if _, isLit := e.(*ast.CompositeLit); isLit {
			continue
		}
		if _, isFn := e.(*ast.FuncLit); isFn {
			continue
		}
		c.Subst[o] = e
	}
}

func (c *Ctx) pureExpr(e ast.Expr, mutable map[string]bool) bool {
	ok := true
	ast.Inspect(e, func(n ast.Node) bool {
		switch x := n.(type) {
		case *ast.CallExpr:
			if tv, found := c.Info.Types[x.Fun]; found && tv.IsType() {
				return true
			}
			if id, isID := x.Fun.(*ast.Ident); isID {
				if _, isB := c.Info.Uses[id].(*types.Builtin); isB && (id.Name == "len" || id.Name == "cap") {
					return true
				}
			}
			if fn, isFn := typeutil.Callee(c.Info, x).(*types.Func); isFn && fn.Pkg() != nil && fn.Pkg().Path() == "strings" {
				return true // package strings is side-effect free
			}
			if se, isSel := x.Fun.(*ast.SelectorExpr); isSel && len(x.Args) == 0 {
				switch se.Sel.Name {
				case "Pos", "End", "IsValid", "String":
					return true
				}
			}
			ok = false
		case *ast.SelectorExpr:
			if mutable[x.Sel.Name] {
				if v, isVar := c.Info.Uses[x.Sel].(*types.Var); isVar && v.IsField() {
					ok = false
				}
			}
		case *ast.FuncLit:
			ok = false
		case *ast.IndexExpr:
			// map/slice reads of receiver state are not pure across statements
			if _, isMap := c.Info.TypeOf(x.X).Underlying().(*types.Map); isMap {
				ok = false
			}
		}
		return true
	})
	return ok
}

// ---------------------------------------------------------------------------------------------
// helpers

var wsRe = regexp.MustCompile(`\s+`)

// ExprStr prints e with the go/ast and dst package qualifiers erased (resolved through go/types,
// not by name) and whitespace collapsed.
func (c *Ctx) ExprStr(e ast.Expr) string {
	if e == nil {
		return ""
	}
	erase = func(id *ast.Ident) bool {
		pn, ok := c.Info.Uses[id].(*types.PkgName)
		if !ok {
			return false
		}
		p := pn.Imported().Path()
		return p == "go/ast" || p == load.PkgDst
	}
	depth := 0
	substHook = func(id *ast.Ident) ast.Expr {
		obj := c.Info.Uses[id]
		if c.PosSubst != nil && depth <= 24 {
			if ex := c.PosSubst(id); ex != nil {
				depth++
				return ex
			}
		}
		if depth > 6 {
			return nil
		}
		if ex, ok := c.Subst[obj]; ok {
			depth++
			return ex
		}
		// named string constants are printed as their value ("//", "\n", "vendor/")
		if cst, ok := obj.(*types.Const); ok && cst.Val().Kind() == constant.String {
			return &ast.BasicLit{Kind: token.STRING, Value: strconv.Quote(constant.StringVal(cst.Val()))}
		}
		return nil
	}
	if c.CallHook != nil {
		callHook = func(call *ast.CallExpr) ast.Expr {
			ex := c.CallHook(call)
			if ex == nil {
				return nil
			}
			return ex
		}
	}
	cp := deepCopy(e)
	substHook = nil
	callHook = nil
	var buf bytes.Buffer
	printer.Fprint(&buf, token.NewFileSet(), cp)
	return strings.TrimSpace(wsRe.ReplaceAllString(buf.String(), " "))
}

var erase func(id *ast.Ident) bool
var substHook func(id *ast.Ident) ast.Expr
var callHook func(call *ast.CallExpr) ast.Expr

// DeepCopy copies an expression applying the hooks that are installed while an expression is
// being printed (substitutions): for call hooks that build an expression over the call's arguments.
func DeepCopy(e ast.Expr) ast.Expr { return deepCopy(e).(ast.Expr) }

func deepCopy(n ast.Node) ast.Node {
	switch n := n.(type) {
	case nil:
		return nil
	case *ast.Ident:
		if substHook != nil {
			if ex := substHook(n); ex != nil {
				cp := deepCopy(ex).(ast.Expr)
				switch cp.(type) {
				case *ast.BinaryExpr, *ast.UnaryExpr:
					return &ast.ParenExpr{X: cp}
				}
				return cp
			}
		}
		return &ast.Ident{Name: n.Name}
	case *ast.BasicLit:
		return &ast.BasicLit{Kind: n.Kind, Value: n.Value}
	case *ast.SelectorExpr:
		if id, ok := n.X.(*ast.Ident); ok && erase != nil && erase(id) {
			return &ast.Ident{Name: n.Sel.Name}
		}
		return &ast.SelectorExpr{X: deepCopy(n.X).(ast.Expr), Sel: &ast.Ident{Name: n.Sel.Name}}
	case *ast.CallExpr:
		if callHook != nil {
			// a call of a predicate of the package is printed as the condition it stands for
			// (already written over copies of the arguments)
			if ex := callHook(n); ex != nil {
				return &ast.ParenExpr{X: ex}
			}
		}
		c := &ast.CallExpr{Fun: deepCopy(n.Fun).(ast.Expr)}
		for _, a := range n.Args {
			c.Args = append(c.Args, deepCopy(a).(ast.Expr))
		}
		if n.Ellipsis.IsValid() {
			c.Ellipsis = 1
		}
		return c
	case *ast.BinaryExpr:
		return &ast.BinaryExpr{X: deepCopy(n.X).(ast.Expr), Op: n.Op, Y: deepCopy(n.Y).(ast.Expr)}
	case *ast.UnaryExpr:
		return &ast.UnaryExpr{Op: n.Op, X: deepCopy(n.X).(ast.Expr)}
	case *ast.ParenExpr:
		inner := deepCopy(n.X).(ast.Expr)
		switch inner.(type) {
		case *ast.Ident, *ast.SelectorExpr, *ast.IndexExpr, *ast.CallExpr, *ast.ParenExpr, *ast.BasicLit:
			return inner // redundant parentheses
		}
		return &ast.ParenExpr{X: inner}
	case *ast.StarExpr:
		inner := deepCopy(n.X).(ast.Expr)
		for {
			p, ok := inner.(*ast.ParenExpr)
			if !ok {
				break
			}
			inner = p.X
		}
		if u, ok := inner.(*ast.UnaryExpr); ok && u.Op == token.AND {
			return u.X // *&x is x
		}
		return &ast.StarExpr{X: inner}
	case *ast.IndexExpr:
		return &ast.IndexExpr{X: deepCopy(n.X).(ast.Expr), Index: deepCopy(n.Index).(ast.Expr)}
	case *ast.TypeAssertExpr:
		t := &ast.TypeAssertExpr{X: deepCopy(n.X).(ast.Expr)}
		if n.Type != nil {
			t.Type = deepCopy(n.Type).(ast.Expr)
		}
		return t
	case *ast.CompositeLit:
		c := &ast.CompositeLit{}
		if n.Type != nil {
			c.Type = deepCopy(n.Type).(ast.Expr)
		}
		for _, a := range n.Elts {
			c.Elts = append(c.Elts, deepCopy(a).(ast.Expr))
		}
		return c
	case *ast.KeyValueExpr:
		return &ast.KeyValueExpr{Key: deepCopy(n.Key).(ast.Expr), Value: deepCopy(n.Value).(ast.Expr)}
	case *ast.ArrayType:
		a := &ast.ArrayType{Elt: deepCopy(n.Elt).(ast.Expr)}
		if n.Len != nil {
			a.Len = deepCopy(n.Len).(ast.Expr)
		}
		return a
	case *ast.MapType:
		return &ast.MapType{Key: deepCopy(n.Key).(ast.Expr), Value: deepCopy(n.Value).(ast.Expr)}
	case *ast.FuncLit:
		return &ast.FuncLit{Type: deepCopy(n.Type).(*ast.FuncType), Body: deepCopy(n.Body).(*ast.BlockStmt)}
	case *ast.FuncType:
		ft := &ast.FuncType{Params: &ast.FieldList{}}
		if n.Params != nil {
			ft.Params = deepCopy(n.Params).(*ast.FieldList)
		}
		if n.Results != nil {
			ft.Results = deepCopy(n.Results).(*ast.FieldList)
		}
		return ft
	case *ast.FieldList:
		fl := &ast.FieldList{}
		for _, f := range n.List {
			nf := &ast.Field{Type: deepCopy(f.Type).(ast.Expr)}
			for _, nm := range f.Names {
				nf.Names = append(nf.Names, &ast.Ident{Name: nm.Name})
			}
			fl.List = append(fl.List, nf)
		}
		return fl
	case *ast.BlockStmt:
		b := &ast.BlockStmt{}
		for _, s := range n.List {
			b.List = append(b.List, deepCopy(s).(ast.Stmt))
		}
		return b
	case *ast.IfStmt:
		s := &ast.IfStmt{Cond: deepCopy(n.Cond).(ast.Expr), Body: deepCopy(n.Body).(*ast.BlockStmt)}
		if n.Init != nil {
			s.Init = deepCopy(n.Init).(ast.Stmt)
		}
		if n.Else != nil {
			s.Else = deepCopy(n.Else).(ast.Stmt)
		}
		return s
	case *ast.ReturnStmt:
		r := &ast.ReturnStmt{}
		for _, x := range n.Results {
			r.Results = append(r.Results, deepCopy(x).(ast.Expr))
		}
		return r
	case *ast.ExprStmt:
		return &ast.ExprStmt{X: deepCopy(n.X).(ast.Expr)}
	case *ast.AssignStmt:
		a := &ast.AssignStmt{Tok: n.Tok}
		for _, x := range n.Lhs {
			a.Lhs = append(a.Lhs, deepCopy(x).(ast.Expr))
		}
		for _, x := range n.Rhs {
			a.Rhs = append(a.Rhs, deepCopy(x).(ast.Expr))
		}
		return a
	case *ast.SwitchStmt:
		s := &ast.SwitchStmt{Body: deepCopy(n.Body).(*ast.BlockStmt)}
		if n.Tag != nil {
			s.Tag = deepCopy(n.Tag).(ast.Expr)
		}
		return s
	case *ast.CaseClause:
		cc := &ast.CaseClause{}
		for _, x := range n.List {
			cc.List = append(cc.List, deepCopy(x).(ast.Expr))
		}
		for _, s := range n.Body {
			cc.Body = append(cc.Body, deepCopy(s).(ast.Stmt))
		}
		return cc
	case *ast.SliceExpr:
		s := &ast.SliceExpr{X: deepCopy(n.X).(ast.Expr), Slice3: n.Slice3}
		if n.Low != nil {
			s.Low = deepCopy(n.Low).(ast.Expr)
		}
		if n.High != nil {
			s.High = deepCopy(n.High).(ast.Expr)
		}
		if n.Max != nil {
			s.Max = deepCopy(n.Max).(ast.Expr)
		}
		return s
	case *ast.InterfaceType:
		return &ast.InterfaceType{Methods: &ast.FieldList{}}
	case *ast.Ellipsis:
		el := &ast.Ellipsis{}
		if n.Elt != nil {
			el.Elt = deepCopy(n.Elt).(ast.Expr)
		}
		return el
	case *ast.IncDecStmt:
		return &ast.IncDecStmt{X: deepCopy(n.X).(ast.Expr), Tok: n.Tok}
	case *ast.RangeStmt:
		r := &ast.RangeStmt{Tok: n.Tok, X: deepCopy(n.X).(ast.Expr), Body: deepCopy(n.Body).(*ast.BlockStmt)}
		if n.Key != nil {
			r.Key = deepCopy(n.Key).(ast.Expr)
		}
		if n.Value != nil {
			r.Value = deepCopy(n.Value).(ast.Expr)
		}
		return r
	case *ast.ForStmt:
		f := &ast.ForStmt{Body: deepCopy(n.Body).(*ast.BlockStmt)}
		if n.Init != nil {
			f.Init = deepCopy(n.Init).(ast.Stmt)
		}
		if n.Cond != nil {
			f.Cond = deepCopy(n.Cond).(ast.Expr)
		}
		if n.Post != nil {
			f.Post = deepCopy(n.Post).(ast.Stmt)
		}
		return f
	case *ast.TypeSwitchStmt:
		t := &ast.TypeSwitchStmt{Assign: deepCopy(n.Assign).(ast.Stmt), Body: deepCopy(n.Body).(*ast.BlockStmt)}
		if n.Init != nil {
			t.Init = deepCopy(n.Init).(ast.Stmt)
		}
		return t
	case *ast.BranchStmt:
		return &ast.BranchStmt{Tok: n.Tok}
	default:
		// unknown kinds are rendered by name so that a comparison on them fails loudly
		id := &ast.Ident{Name: fmt.Sprintf("«%T»", n)}
		if _, isStmt := n.(ast.Stmt); isStmt {
			return &ast.ExprStmt{X: id}
		}
		return id
	}
}

// TokenStr renders a token expression; the conditional forms — an immediately invoked
// `func() token.Token { if C { return A }; return B }()` or a local that is initialised to B and
// reassigned to A under C — are rendered canonically as `cond(C ? A : B)`.
func (c *Ctx) TokenStr(e ast.Expr) string {
	if call, ok := e.(*ast.CallExpr); ok && len(call.Args) == 0 {
		if fl, ok := call.Fun.(*ast.FuncLit); ok && len(fl.Body.List) == 2 {
			is, ok1 := fl.Body.List[0].(*ast.IfStmt)
			last, ok2 := fl.Body.List[1].(*ast.ReturnStmt)
			if ok1 && ok2 && is.Init == nil && is.Else == nil && len(is.Body.List) == 1 && len(last.Results) == 1 {
				if r, ok := is.Body.List[0].(*ast.ReturnStmt); ok && len(r.Results) == 1 {
					return "cond(" + c.ExprStr(is.Cond) + " ? " + c.ExprStr(r.Results[0]) + " : " + c.ExprStr(last.Results[0]) + ")"
				}
			}
		}
	}
	if id, ok := e.(*ast.Ident); ok {
		if s, ok := c.CondLocals[c.Info.Uses[id]]; ok {
			return s
		}
	}
	return c.ExprStr(e)
}

// ComputeCondLocals finds locals of body of the shape `x := B` (or var x = B) followed by exactly
// one conditional reassignment `if C { x = A }` at the same level, and records their canonical
// conditional value.
func (c *Ctx) ComputeCondLocals(body []ast.Stmt) {
	c.CondLocals = map[types.Object]string{}
	init := map[types.Object]ast.Expr{}
	for i, st := range body {
		switch s := st.(type) {
		case *ast.AssignStmt:
			if s.Tok == token.DEFINE && len(s.Lhs) == 1 && len(s.Rhs) == 1 {
				if id, ok := s.Lhs[0].(*ast.Ident); ok {
					init[c.Info.Defs[id]] = s.Rhs[0]
				}
			}
		case *ast.DeclStmt:
			if gd, ok := s.Decl.(*ast.GenDecl); ok && gd.Tok == token.VAR {
				for _, sp := range gd.Specs {
					vs := sp.(*ast.ValueSpec)
					for j, nm := range vs.Names {
						if j < len(vs.Values) {
							init[c.Info.Defs[nm]] = vs.Values[j]
						}
					}
				}
			}
		case *ast.IfStmt:
			if s.Init != nil || len(s.Body.List) != 1 {
				continue
			}
			as, ok := s.Body.List[0].(*ast.AssignStmt)
			if !ok || as.Tok != token.ASSIGN || len(as.Lhs) != 1 || len(as.Rhs) != 1 {
				continue
			}
			id, ok := as.Lhs[0].(*ast.Ident)
			if !ok {
				continue
			}
			obj := c.Info.Uses[id]
			b, has := init[obj]
			if !has {
				continue
			}
			other := b
			if el, ok := s.Else.(*ast.BlockStmt); ok && len(el.List) == 1 {
				if eas, ok := el.List[0].(*ast.AssignStmt); ok && len(eas.Lhs) == 1 && len(eas.Rhs) == 1 {
					if eid, ok := eas.Lhs[0].(*ast.Ident); ok && c.Info.Uses[eid] == obj {
						other = eas.Rhs[0]
					}
				}
			} else if s.Else != nil {
				continue
			}
			// no other write to obj in the rest of the body
			writes := 0
			for _, rest := range body[i+1:] {
				ast.Inspect(rest, func(n ast.Node) bool {
					if a2, ok := n.(*ast.AssignStmt); ok {
						for _, l := range a2.Lhs {
							if lid, ok := l.(*ast.Ident); ok && c.Info.Uses[lid] == obj {
								writes++
							}
						}
					}
					return true
				})
			}
			if writes == 0 {
				c.CondLocals[obj] = "cond(" + c.ExprStr(s.Cond) + " ? " + c.ExprStr(as.Rhs[0]) + " : " + c.ExprStr(other) + ")"
			}
		}
	}
}

// ExpandCall: when stmts is a single call statement to a function or method declared in the same
// package (small body, no result values), it returns the callee's body and installs its
// parameters in c.Subst as aliases of the arguments (and the receiver, for methods); undo removes
// them again. Otherwise it returns stmts unchanged.
func (c *Ctx) ExpandCall(stmts []ast.Stmt) (body []ast.Stmt, undo func()) {
	undo = func() {}
	if len(stmts) != 1 {
		return stmts, undo
	}
	es, ok := stmts[0].(*ast.ExprStmt)
	if !ok {
		return stmts, undo
	}
	call, ok := es.X.(*ast.CallExpr)
	if !ok {
		return stmts, undo
	}
	fn := c.Callee(call)
	if fn == nil || fn.Pkg() == nil || fn.Pkg() != c.Pkg.Types {
		return stmts, undo
	}
	var decl *ast.FuncDecl
	for _, f := range load.AllFuncDecls(c.Pkg) {
		if c.Info.Defs[f.Name] == types.Object(fn) {
			decl = f
		}
	}
	if decl == nil || decl.Body == nil || len(decl.Body.List) > 12 || (decl.Type.Results != nil && len(decl.Type.Results.List) > 0) {
		return stmts, undo
	}
	var params []types.Object
	for _, p := range decl.Type.Params.List {
		for _, nm := range p.Names {
			params = append(params, c.Info.Defs[nm])
		}
	}
	if len(params) != len(call.Args) || call.Ellipsis.IsValid() {
		return stmts, undo
	}
	if c.Subst == nil {
		c.Subst = map[types.Object]ast.Expr{}
	}
	var added []types.Object
	for i, p := range params {
		if p != nil {
			c.Subst[p] = call.Args[i]
			added = append(added, p)
		}
	}
	if decl.Recv != nil && len(decl.Recv.List) == 1 && len(decl.Recv.List[0].Names) == 1 {
		if se, ok := call.Fun.(*ast.SelectorExpr); ok {
			r := c.Info.Defs[decl.Recv.List[0].Names[0]]
			c.Subst[r] = se.X
			added = append(added, r)
		}
	}
	return decl.Body.List, func() {
		for _, p := range added {
			delete(c.Subst, p)
		}
	}
}

// FlattenBody expands, one level deep, every statement of stmts that is a call to a small
// same-package helper without results; the helpers' parameters stay installed in c.Subst (the
// caller resets c.Subst when done). Statements of nested blocks are not expanded.
func (c *Ctx) FlattenBody(stmts []ast.Stmt) []ast.Stmt {
	var out []ast.Stmt
	for _, st := range stmts {
		body, _ := c.ExpandCall([]ast.Stmt{st})
		out = append(out, body...)
	}
	return out
}

// ObjOf returns the object an identifier uses or defines.
func (c *Ctx) ObjOf(id *ast.Ident) types.Object {
	if o := c.Info.Uses[id]; o != nil {
		return o
	}
	return c.Info.Defs[id]
}

// Path returns the selector path of e relative to root ("" when e is root itself) and whether e
// is such a chain: n.Type.Params with root=n gives "Type.Params".
func (c *Ctx) Path(e ast.Expr, root types.Object) (string, bool) {
	if root == nil {
		return "", false
	}
	var parts []string
	hops := 0
	for {
		switch x := e.(type) {
		case *ast.ParenExpr:
			e = x.X
			continue
		case *ast.SelectorExpr:
			parts = append([]string{x.Sel.Name}, parts...)
			e = x.X
			continue
		case *ast.UnaryExpr:
			if x.Op == token.AND {
				e = x.X
				continue
			}
			return "", false
		case *ast.StarExpr:
			e = x.X
			continue
		case *ast.Ident:
			if c.ObjOf(x) == root {
				return strings.Join(parts, "."), true
			}
			if ex, ok := c.Subst[c.Info.Uses[x]]; ok && hops < 6 {
				hops++
				e = ex
				continue
			}
			return "", false
		default:
			return "", false
		}
	}
}

// Reads returns every maximal selector path rooted at root inside e (sorted by occurrence).
func (c *Ctx) Reads(e ast.Node, root types.Object) []string {
	var out []string
	seen := map[string]bool{}
	var visit func(n ast.Node) bool
	visit = func(n ast.Node) bool {
		if ex, ok := n.(ast.Expr); ok {
			if p, ok := c.Path(ex, root); ok {
				if !seen[p] {
					seen[p] = true
					out = append(out, p)
				}
				return false
			}
		}
		return true
	}
	ast.Inspect(e, visit)
	return out
}

// Callee resolves the called function or method (nil for conversions, builtins, func values).
func (c *Ctx) Callee(call *ast.CallExpr) *types.Func {
	f, _ := typeutil.Callee(c.Info, call).(*types.Func)
	return f
}

// IsMethod reports whether fn is the method recvType.name declared in package pkgPath.
func IsMethod(fn *types.Func, pkgPath, recvType, name string) bool {
	if fn == nil || load.CanonName(fn) != name || fn.Pkg() == nil || fn.Pkg().Path() != pkgPath {
		return false
	}
	sig := fn.Type().(*types.Signature)
	if sig.Recv() == nil {
		return recvType == ""
	}
	t := sig.Recv().Type()
	if p, ok := t.(*types.Pointer); ok {
		t = p.Elem()
	}
	if nt, ok := t.(*types.Named); ok {
		return nt.Obj().Name() == recvType
	}
	return false
}

// IsFunc reports whether fn is the package-level function pkgPath.name.
func IsFunc(fn *types.Func, pkgPath, name string) bool {
	if fn == nil || load.CanonName(fn) != name || fn.Pkg() == nil || fn.Pkg().Path() != pkgPath {
		return false
	}
	return fn.Type().(*types.Signature).Recv() == nil
}

// StringLit returns the value of a string literal expression.
func StringLit(e ast.Expr) (string, bool) {
	if bl, ok := e.(*ast.BasicLit); ok && bl.Kind == token.STRING {
		s := bl.Value
		if len(s) >= 2 {
			return s[1 : len(s)-1], true
		}
	}
	return "", false
}

// InstallTypeSwitchVars makes the variable a type switch binds in a single-type clause print as
// the assertion it stands for (`switch d := x.(type) { case *T: … d.F … }` prints d.F as
// x.(*T).F), so that conditions written through the typed variable and through an explicit
// assertion are the same text. undo removes the substitutions again.
func (c *Ctx) InstallTypeSwitchVars(root ast.Node) (undo func()) {
	if c.Subst == nil {
		c.Subst = map[types.Object]ast.Expr{}
	}
	var added []types.Object
	ast.Inspect(root, func(n ast.Node) bool {
		ts, ok := n.(*ast.TypeSwitchStmt)
		if !ok {
			return true
		}
		as, ok := ts.Assign.(*ast.AssignStmt)
		if !ok || len(as.Rhs) != 1 {
			return true
		}
		ta, ok := as.Rhs[0].(*ast.TypeAssertExpr)
		if !ok {
			return true
		}
		for _, cl := range ts.Body.List {
			cc := cl.(*ast.CaseClause)
			if len(cc.List) != 1 {
				continue
			}
			if o := c.Info.Implicits[cc]; o != nil {
				if _, has := c.Subst[o]; !has {
					c.Subst[o] = &ast.TypeAssertExpr{X: ta.X, Type: cc.List[0]}
					added = append(added, o)
				}
			}
		}
		return true
	})
	return func() {
		for _, o := range added {
			delete(c.Subst, o)
		}
	}
}

// StringLitS is StringLit through the substitution: an identifier that stands for a string
// literal (a parameter of an inlined closure bound to its argument) is that literal.
func (c *Ctx) StringLitS(e ast.Expr) (string, bool) {
	for hops := 0; hops < 6; hops++ {
		if s, ok := StringLit(e); ok {
			return s, true
		}
		id, ok := ast.Unparen(e).(*ast.Ident)
		if !ok {
			return "", false
		}
		ex, ok := c.Subst[c.Info.Uses[id]]
		if !ok {
			return "", false
		}
		e = ex
	}
	return "", false
}

// NamedTypeName returns (pkgPath, name) of a (pointer to a) named type.
func NamedTypeName(t types.Type) (string, string) {
	if t == nil {
		return "", ""
	}
	t = types.Unalias(t)
	if p, ok := t.(*types.Pointer); ok {
		t = types.Unalias(p.Elem())
	}
	if n, ok := t.(*types.Named); ok {
		pkg := ""
		if n.Obj().Pkg() != nil {
			pkg = n.Obj().Pkg().Path()
		}
		return pkg, n.Obj().Name()
	}
	return "", ""
}

// findTypeSwitch locates the single top-level type switch of fd and splits prologue/epilogue.
func findTypeSwitch(fd *ast.FuncDecl) (pro []ast.Stmt, ts *ast.TypeSwitchStmt, epi []ast.Stmt) {
	for i, s := range fd.Body.List {
		if t, ok := s.(*ast.TypeSwitchStmt); ok {
			return fd.Body.List[:i], t, fd.Body.List[i+1:]
		}
	}
	return fd.Body.List, nil, nil
}

// newSibling splits the function into cases. Each case clause with exactly one type yields a
// Case; multi-type clauses are recorded in MultiCases under each type.
func newSibling(c *Ctx, name string, fd *ast.FuncDecl) (*Sibling, error) {
	if fd == nil || fd.Body == nil {
		return nil, fmt.Errorf("%s: function not found", name)
	}
	s := &Sibling{Name: name, Pkg: c.Pkg, Func: fd, Cases: map[string]*Case{}, MultiCases: map[string][]string{}}
	s.Prologue, s.Switch, s.Epilogue = findTypeSwitch(fd)
	if s.Switch == nil {
		// the type switch may live in a helper that the function calls as a statement and that
		// consists of nothing but the switch (the frame stays behind, the cases move out)
		for i, st := range fd.Body.List {
			es, ok := st.(*ast.ExprStmt)
			if !ok {
				continue
			}
			call, ok := es.X.(*ast.CallExpr)
			if !ok {
				continue
			}
			fn := c.Callee(call)
			if fn == nil || fn.Pkg() != c.Pkg.Types {
				continue
			}
			for _, d := range load.AllFuncDecls(c.Pkg) {
				if c.Info.Defs[d.Name] != types.Object(fn) || d.Body == nil || d == fd {
					continue
				}
				if pro, sw, epi := findTypeSwitch(d); sw != nil && len(pro) == 0 && len(epi) == 0 {
					s.Prologue, s.Switch, s.Epilogue = fd.Body.List[:i], sw, fd.Body.List[i+1:]
					s.SwitchFunc = d
				}
			}
			if s.Switch != nil {
				break
			}
		}
	}
	if s.Switch == nil {
		return nil, fmt.Errorf("%s: no top-level type switch in %s", name, fd.Name.Name)
	}
	clauses := append([]ast.Stmt{}, s.Switch.Body.List...)
	// a switch whose default arm only hands the same arguments on to another function of the
	// package with a top-level type switch is continued there (a converter split into a chain)
	seenFn := map[*ast.FuncDecl]bool{fd: true}
	for hop := 0; hop < 6; hop++ {
		var def *ast.CaseClause
		for _, st := range clauses {
			if cc := st.(*ast.CaseClause); cc.List == nil {
				def = cc
			}
		}
		if def == nil || len(def.Body) != 1 {
			break
		}
		es, ok := def.Body[0].(*ast.ExprStmt)
		if !ok {
			break
		}
		call, ok := es.X.(*ast.CallExpr)
		if !ok {
			break
		}
		fn := c.Callee(call)
		if fn == nil || fn.Pkg() != c.Pkg.Types {
			break
		}
		var next *ast.FuncDecl
		for _, d := range load.AllFuncDecls(c.Pkg) {
			if c.Info.Defs[d.Name] == types.Object(fn) && d.Body != nil && !seenFn[d] {
				next = d
			}
		}
		if next == nil {
			break
		}
		pro, sw, epi := findTypeSwitch(next)
		if sw == nil || len(pro) != 0 || len(epi) != 0 {
			break
		}
		// arguments are the caller's parameters, in order
		same := len(call.Args) == len(fd.Type.Params.List) || true
		_ = same
		seenFn[next] = true
		var merged []ast.Stmt
		for _, st := range clauses {
			if st != ast.Stmt(def) {
				merged = append(merged, st)
			}
		}
		clauses = append(merged, sw.Body.List...)
		s.Chain = append(s.Chain, next)
	}
	for _, st := range clauses {
		cc := st.(*ast.CaseClause)
		if cc.List == nil {
			s.HasDefault = true
			s.DefaultBody = cc.Body
			continue
		}
		var names []string
		for _, te := range cc.List {
			if tv, ok := c.Info.Types[te]; ok && tv.IsNil() {
				s.NilCase = cc
				continue
			}
			t := c.Info.TypeOf(te)
			pkg, tn := NamedTypeName(t)
			if tn == "" {
				return nil, fmt.Errorf("%s: case type %s is not a named type", name, c.ExprStr(te))
			}
			s.NodePkg = pkg
			names = append(names, tn)
		}
		for _, tn := range names {
			if _, dup := s.Cases[tn]; dup {
				return nil, fmt.Errorf("%s: duplicate case %s", name, tn)
			}
			cs := &Case{Type: tn, Pos: cc.Pos(), Clause: cc}
			if len(names) == 1 {
				cs.NObj = c.Info.Implicits[cc]
			} else {
				s.MultiCases[tn] = names
			}
			s.Cases[tn] = cs
			s.Order = append(s.Order, tn)
		}
	}
	return s, nil
}

// PanicsOnly reports whether the statement list is a single call to the builtin panic.
func (c *Ctx) PanicsOnly(body []ast.Stmt) bool {
	if len(body) != 1 {
		return false
	}
	es, ok := body[0].(*ast.ExprStmt)
	if !ok {
		return false
	}
	call, ok := es.X.(*ast.CallExpr)
	if !ok {
		return false
	}
	id, ok := call.Fun.(*ast.Ident)
	if !ok {
		return false
	}
	_, isBuiltin := c.Info.Uses[id].(*types.Builtin)
	return isBuiltin && id.Name == "panic"
}

// guard stack ---------------------------------------------------------------------------------

type gctx struct {
	guards []string
	els    bool
	loop   string
}

func (g gctx) with(cond string, els bool) gctx {
	ng := gctx{loop: g.loop}
	if els {
		cond = NegGuard(cond)
	}
	ng.guards = append(append([]string{}, g.guards...), cond)
	return ng
}

// NegGuard negates a normalised condition, keeping it in a canonical spelling.
func NegGuard(cond string) string {
	cond = strings.TrimSpace(cond)
	if strings.HasPrefix(cond, "!") && !strings.ContainsAny(cond[1:], " &|") {
		return cond[1:]
	}
	if strings.HasPrefix(cond, "!(") && strings.HasSuffix(cond, ")") && parensBalanced(cond[2:len(cond)-1]) {
		return cond[2 : len(cond)-1]
	}
	for _, p := range [][2]string{{" != ", " == "}, {" == ", " != "}} {
		if strings.Count(cond, p[0]) == 1 && !strings.ContainsAny(cond, "&|") {
			return strings.Replace(cond, p[0], p[1], 1)
		}
	}
	if !strings.ContainsAny(cond, " ") {
		return "!" + cond
	}
	return "!(" + cond + ")"
}

func (g gctx) apply(e *Event) {
	e.Guard = strings.Join(g.guards, " && ")
	e.Else = g.els
	e.Loop = g.loop
}

// parensBalanced: s never closes a parenthesis it did not open, and ends at depth 0.
func parensBalanced(s string) bool {
	d := 0
	for _, r := range s {
		switch r {
		case '(':
			d++
		case ')':
			d--
			if d < 0 {
				return false
			}
		}
	}
	return d == 0
}
