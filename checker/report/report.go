// Package report collects obligations, matches known findings, writes evidence and violation
// reports, and decides the exit code.
package report

import (
	"encoding/json"
	"fmt"
	"os"
	"path/filepath"
	"sort"
	"strings"
	"time"
)

// VerifDir is where evidence, reports and known findings live.
func VerifDir() string {
	if d := os.Getenv("DSTVERIF_DIR"); d != "" {
		return d
	}
	return "/verif"
}

// Obligation is one checked fact.
type Obligation struct {
	Rule      string `json:"rule"`
	Construct string `json:"construct"` // stable key: rule + construct identify the obligation (no line numbers)
	Pos       string `json:"pos,omitempty"`
	Verdict   string `json:"verdict"` // ok | violated | undecided | known
	Detail    string `json:"detail,omitempty"`
}

func (o Obligation) Key() string { return o.Rule + " " + o.Construct }

// KnownFinding is one entry of known-findings.json.
type KnownFinding struct {
	Property  string `json:"property"`
	Rule      string `json:"rule"`
	Construct string `json:"construct"`
	What      string `json:"what"`
}

type knownFile struct {
	Findings []KnownFinding `json:"findings"`
	Fixed    []string       `json:"fixed"`
}

// Run is one invocation for one property.
type Run struct {
	Prop        string
	Tier        string
	Seed        int64
	Level       string
	Start       time.Time
	obs         []Obligation
	seen        map[string]int
	instances   map[string]int
	floors      []floor
	Explanation string
	Assumptions []string
	NotCovered  []string
	Extra       map[string]interface{}
	known       []KnownFinding
	analysed    map[string]int
	ReplayKey   string
	Notes       []string
}

type floor struct {
	rule  string
	what  string
	count int
	min   int
}

func NewRun(prop, tier string, seed int64) *Run {
	r := &Run{Prop: prop, Tier: tier, Seed: seed, Level: "other", Start: time.Now(), seen: map[string]int{}, instances: map[string]int{}, Extra: map[string]interface{}{}, analysed: map[string]int{}}
	r.loadKnown()
	return r
}

func (r *Run) loadKnown() {
	b, err := os.ReadFile(filepath.Join(VerifDir(), "known-findings.json"))
	if err != nil {
		return
	}
	var kf knownFile
	if err := json.Unmarshal(b, &kf); err != nil {
		fmt.Fprintf(os.Stderr, "known-findings.json: %v\n", err)
		return
	}
	for _, k := range kf.Findings {
		if k.Property == r.Prop {
			r.known = append(r.known, k)
		}
	}
}

// Check records an obligation. construct must be stable under unrelated edits (no positions).
func (r *Run) Check(rule, construct, pos string, ok bool, detail string) bool {
	v := "ok"
	if !ok {
		v = "violated"
	}
	r.add(Obligation{Rule: rule, Construct: construct, Pos: pos, Verdict: v, Detail: detail})
	return ok
}

// Violation records a violated obligation.
func (r *Run) Violation(rule, construct, pos, detail string) {
	r.add(Obligation{Rule: rule, Construct: construct, Pos: pos, Verdict: "violated", Detail: detail})
}

// OK records a discharged obligation.
func (r *Run) OK(rule, construct, pos, detail string) {
	r.add(Obligation{Rule: rule, Construct: construct, Pos: pos, Verdict: "ok", Detail: detail})
}

// Undecided records a construct the analysis cannot classify. The run then exits 2 without a
// VIOLATION line.
func (r *Run) Undecided(rule, construct, pos, detail string) {
	r.add(Obligation{Rule: rule, Construct: construct, Pos: pos, Verdict: "undecided", Detail: detail})
}

func (r *Run) add(o Obligation) {
	// keep keys unique: a repeated key gets a numeric suffix (stable in source order)
	k := o.Key()
	r.seen[k]++
	if n := r.seen[k]; n > 1 {
		o.Construct = fmt.Sprintf("%s #%d", o.Construct, n)
	}
	r.instances[o.Rule]++
	r.obs = append(r.obs, o)
}

// Floor asserts that a rule matched at least min instances (a rule matching nothing passes
// vacuously forever). A miss is reported as a violation of the rule's coverage obligation: the
// anchor constructs the property rests on are gone.
func (r *Run) Floor(rule, what string, count, min int) {
	r.floors = append(r.floors, floor{rule, what, count, min})
	for _, o := range r.obs {
		if o.Rule == rule && o.Verdict == "undecided" {
			// the rule already said it cannot decide some instances: the count is not meaningful
			return
		}
	}
	r.Check(rule, "floor: "+what, "", count >= min, fmt.Sprintf("%d instances found, confirmed floor %d (floors are set well below today's counts; falling under one means the rule has lost the constructs it anchors on)", count, min))
}

// Analysed counts units looked at (functions, cases, call sites, paths ...).
func (r *Run) Analysed(what string, n int) { r.analysed[what] += n }

func (r *Run) Note(format string, a ...interface{}) {
	r.Notes = append(r.Notes, fmt.Sprintf(format, a...))
}

type evidence struct {
	PropertyID  string                 `json:"property_id"`
	Tier        string                 `json:"tier"`
	Seed        int64                  `json:"seed"`
	Level       string                 `json:"level"`
	Coverage    map[string]interface{} `json:"coverage"`
	Assumptions []string               `json:"assumptions"`
	WallS       float64                `json:"wall_s"`
	Violations  int                    `json:"violations"`
}

// Finish prints result lines, writes evidence and reports and returns the exit code.
func (r *Run) Finish() int {
	var viol, undec, knownHit []Obligation
	matchedKnown := map[int]bool{}
	for i := range r.obs {
		o := &r.obs[i]
		switch o.Verdict {
		case "violated":
			hit := false
			for ki, k := range r.known {
				if k.Rule == o.Rule && k.Construct == o.Construct {
					hit = true
					matchedKnown[ki] = true
				}
			}
			if hit {
				o.Verdict = "known"
				knownHit = append(knownHit, *o)
			} else {
				viol = append(viol, *o)
			}
		case "undecided":
			undec = append(undec, *o)
		}
	}
	if r.ReplayKey != "" {
		// replay: only the stored obligation matters
		var keep []Obligation
		for _, o := range viol {
			if o.Key() == r.ReplayKey {
				keep = append(keep, o)
			}
		}
		found := false
		for _, o := range r.obs {
			if o.Key() == r.ReplayKey {
				found = true
				fmt.Printf("REPLAY property=%s rule=%s construct=%q pos=%s verdict=%s\n  %s\n", r.Prop, o.Rule, o.Construct, o.Pos, o.Verdict, o.Detail)
			}
		}
		if !found {
			fmt.Printf("REPLAY property=%s key=%q: obligation no longer exists on this tree\n", r.Prop, r.ReplayKey)
		}
		if len(keep) > 0 {
			return 1
		}
		return 0
	}

	for _, o := range knownHit {
		fmt.Printf("KNOWN-FINDING: property=%s %s %s (%s) %s\n", r.Prop, o.Rule, o.Construct, o.Pos, o.Detail)
	}
	for ki, k := range r.known {
		if !matchedKnown[ki] {
			r.Note("known finding no longer reported (repaired?): %s %s", k.Rule, k.Construct)
		}
	}
	repDir := filepath.Join(VerifDir(), "reports", r.Prop)
	os.RemoveAll(repDir)
	if len(viol) > 0 {
		os.MkdirAll(repDir, 0o755)
	}
	for i, o := range viol {
		path := filepath.Join(repDir, fmt.Sprintf("%d.json", i+1))
		b, _ := json.MarshalIndent(map[string]interface{}{"property": r.Prop, "rule": o.Rule, "construct": o.Construct, "pos": o.Pos, "detail": o.Detail, "key": o.Key(), "tier": r.Tier}, "", " ")
		os.WriteFile(path, b, 0o644)
		fmt.Printf("VIOLATION property=%s replay=%s\n", r.Prop, path)
		fmt.Printf("  rule=%s construct=%q at %s\n  %s\n", o.Rule, o.Construct, o.Pos, o.Detail)
	}
	for _, o := range undec {
		fmt.Printf("UNDECIDED property=%s rule=%s construct=%q at %s: %s\n", r.Prop, o.Rule, o.Construct, o.Pos, o.Detail)
	}

	r.writeEvidence(len(viol), len(undec), len(knownHit))

	total := len(r.obs)
	fmt.Printf("property=%s tier=%s obligations=%d discharged=%d known=%d violations=%d undecided=%d wall=%.1fs\n",
		r.Prop, r.Tier, total, total-len(viol)-len(undec)-len(knownHit), len(knownHit), len(viol), len(undec), time.Since(r.Start).Seconds())
	if len(viol) > 0 {
		return 1
	}
	if len(undec) > 0 {
		return 2
	}
	return 0
}

func (r *Run) writeEvidence(nviol, nundec, nknown int) {
	total := len(r.obs)
	rules := make([]string, 0, len(r.instances))
	for k := range r.instances {
		rules = append(rules, k)
	}
	sort.Strings(rules)
	inst := map[string]int{}
	for _, k := range rules {
		inst[k] = r.instances[k]
	}
	distinct := map[string]bool{}
	for _, o := range r.obs {
		if !strings.HasPrefix(o.Construct, "floor: ") {
			distinct[o.Key()] = true
		}
	}
	// samples: first obligation of each rule, plus every non-ok one (bounded)
	var samples []Obligation
	seenRule := map[string]int{}
	for _, o := range r.obs {
		if o.Verdict != "ok" && len(samples) < 40 {
			samples = append(samples, o)
			continue
		}
		if seenRule[o.Rule] < 2 && len(samples) < 40 {
			seenRule[o.Rule]++
			samples = append(samples, o)
		}
	}
	floors := []map[string]interface{}{}
	for _, f := range r.floors {
		floors = append(floors, map[string]interface{}{"rule": f.rule, "what": f.what, "count": f.count, "floor": f.min})
	}
	if r.NotCovered == nil {
		r.NotCovered = []string{}
	}
	if r.Notes == nil {
		r.Notes = []string{}
	}
	cov := map[string]interface{}{
		"trusted_base":           []string{"go/packages + go/types (go1.23.5)", "golang.org/x/tools v0.29.0 (go/cfg, typeutil)", "frozen exception tables in /verif/checker/rules"},
		"explanation":            r.Explanation,
		"obligations":            total,
		"discharged":             total - nviol - nundec - nknown,
		"known_findings_matched": nknown,
		"undecided":              nundec,
		"rule_instances":         inst,
		"instance_floors":        floors,
		"analysed":               r.analysed,
		"evaluations":            total,
		"distinct_nontrivial":    len(distinct),
		"rule":                   "one evaluation per obligation (rule + construct); distinct = distinct obligation keys, floors excluded; every obligation compares at least one extracted event/fact of /repo's current source",
		"samples":                samples,
		"not_covered":            r.NotCovered,
		"exhaustive":             true,
		"checker_cmd":            strings.Join(os.Args, " "),
		"notes":                  r.Notes,
	}
	for k, v := range r.Extra {
		cov[k] = v
	}
	ev := evidence{PropertyID: r.Prop, Tier: r.Tier, Seed: r.Seed, Level: r.Level, Coverage: cov, Assumptions: r.Assumptions,
		WallS: time.Since(r.Start).Seconds(), Violations: nviol}
	if ev.Assumptions == nil {
		ev.Assumptions = []string{}
	}
	b, _ := json.MarshalIndent(ev, "", " ")
	dir := filepath.Join(VerifDir(), "evidence")
	os.MkdirAll(dir, 0o755)
	if err := os.WriteFile(filepath.Join(dir, r.Prop+".json"), append(b, '\n'), 0o644); err != nil {
		fmt.Fprintf(os.Stderr, "evidence: %v\n", err)
	}
}

// Obligations exposes the recorded obligations (self-test).
func (r *Run) Obligations() []Obligation { return r.obs }
