// Finding 1: the restorer compares identifier paths with its own Path without removing the
// vendor prefix, while the decorator removes the vendor prefix from every path it assigns (and
// from its own Path before comparing). For a package that lives in a vendor directory the two
// sides therefore disagree about what "local" means:
//
//	A) no-op round trip of the vendored package with ResolveLocalPath: every local reference
//	   comes back as a selector on a self-import (C07 "identifiers with ... local path are
//	   bare", C08 byte-for-byte);
//	B) code that refers to the vendored package is moved into that package: `v.L()` must become
//	   `L()` and no import may appear (C10), but the self-import is added.
package main

import (
	"bytes"
	"fmt"
	"go/ast"
	"go/parser"
	"go/token"
	"go/types"
	"os"
	"strconv"

	"github.com/dave/dst"
	"github.com/dave/dst/decorator"
	"github.com/dave/dst/decorator/resolver/gotypes"
	"github.com/dave/dst/decorator/resolver/simple"
)

const (
	appPath = "ex.com/app"
	// the path go/packages (PkgPath) and go/types report for the vendored copy of ex.com/v
	vPath = "ex.com/app/vendor/ex.com/v"
)

const vSrc = `package v

func S() int { return L() }

func L() int { return 0 }
`

const appSrc = `package app

import "ex.com/v"

func Use() int { return v.L() + 1 }
`

// importer resolves the import path "ex.com/v" to the vendored package, like the go command does
type vendorImporter struct {
	v *types.Package
}

func (i vendorImporter) Import(path string) (*types.Package, error) {
	if path == "ex.com/v" && i.v != nil {
		return i.v, nil
	}
	return nil, fmt.Errorf("cannot import %q (a package cannot import itself / unknown package)", path)
}

type checked struct {
	fset *token.FileSet
	file *ast.File
	info *types.Info
	pkg  *types.Package
}

func check(path, src string, imp types.Importer) (*checked, error) {
	fset := token.NewFileSet()
	f, err := parser.ParseFile(fset, "x.go", src, parser.ParseComments)
	if err != nil {
		return nil, err
	}
	info := &types.Info{Uses: map[*ast.Ident]types.Object{}, Defs: map[*ast.Ident]types.Object{}}
	pkg, err := (&types.Config{Importer: imp}).Check(path, fset, []*ast.File{f}, info)
	if err != nil {
		return nil, err
	}
	return &checked{fset, f, info, pkg}, nil
}

func restore(path string, f *dst.File) string {
	r := decorator.NewRestorerWithImports(path, simple.New(map[string]string{"ex.com/v": "v", vPath: "v"}))
	var buf bytes.Buffer
	if err := r.Fprint(&buf, f); err != nil {
		fmt.Println("FAIL: restore:", err)
		os.Exit(1)
	}
	return buf.String()
}

func imports(src string) []string {
	f, err := parser.ParseFile(token.NewFileSet(), "x.go", src, parser.ImportsOnly)
	if err != nil {
		return []string{"unparsable: " + err.Error()}
	}
	var out []string
	for _, is := range f.Imports {
		p, _ := strconv.Unquote(is.Path.Value)
		out = append(out, p)
	}
	return out
}

func main() {
	vc, err := check(vPath, vSrc, vendorImporter{})
	if err != nil {
		panic(err)
	}
	ac, err := check(appPath, appSrc, vendorImporter{vc.pkg})
	if err != nil {
		panic(err)
	}

	failed := false

	// A) no-op round trip of the vendored package, ResolveLocalPath on
	{
		dec := decorator.NewDecoratorWithImports(vc.fset, vPath, gotypes.New(vc.info.Uses))
		dec.ResolveLocalPath = true
		f, err := dec.DecorateFile(vc.file)
		if err != nil {
			panic(err)
		}
		out := restore(vPath, f)
		if out != vSrc {
			failed = true
			fmt.Printf("A) no-op round trip of vendored package %s (ResolveLocalPath) is not the identity; imports now %q:\n%s\n", vPath, imports(out), out)
		}
		if _, err := check(vPath, out, vendorImporter{}); err != nil {
			fmt.Println("A) output does not type-check:", err)
		}
	}

	// B) move Use() from ex.com/app into the vendored package it refers to
	{
		adec := decorator.NewDecoratorWithImports(ac.fset, appPath, gotypes.New(ac.info.Uses))
		af, err := adec.DecorateFile(ac.file)
		if err != nil {
			panic(err)
		}
		vdec := decorator.NewDecoratorWithImports(vc.fset, vPath, gotypes.New(vc.info.Uses))
		vf, err := vdec.DecorateFile(vc.file)
		if err != nil {
			panic(err)
		}
		use := af.Decls[1]
		af.Decls = af.Decls[:1]
		vf.Decls = append(vf.Decls, use)
		out := restore(vPath, vf)
		if imps := imports(out); len(imps) != 0 {
			failed = true
			fmt.Printf("B) Use() moved into %s: the file now imports %q (itself):\n%s\n", vPath, imps, out)
		}
		if _, err := check(vPath, out, vendorImporter{}); err != nil {
			failed = true
			fmt.Println("B) output does not type-check:", err)
		}
	}

	if failed {
		fmt.Println("FAIL: restorer treats the stripped path of its own vendored package as a foreign package (self-import added, local references qualified)")
		os.Exit(1)
	}
	fmt.Println("PASS")
}
