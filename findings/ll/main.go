// C01: a gofmt-canonical file is not reproduced byte for byte when a value spec inside a
// parenthesised const/var group ends in a multi-line raw string and has a trailing comment.
package main

import (
	"bytes"
	"fmt"
	"go/ast"
	"go/format"
	"go/parser"
	"go/token"
	"os"

	"github.com/dave/dst/decorator"
)

const src = "package p\n" +
	"\n" +
	"const (\n" +
	"\tusage = `line1\n" +
	"line2` // the usage text\n" +
	"\tother = 1\n" +
	")\n"

func main() {
	// the input is in gofmt canonical form
	canon, err := format.Source([]byte(src))
	if err != nil || string(canon) != src {
		fmt.Println("SETUP: input is not gofmt canonical", err)
		os.Exit(2)
	}

	f, err := decorator.Parse(src)
	if err != nil {
		fmt.Println("SETUP: parse error", err)
		os.Exit(2)
	}
	var buf bytes.Buffer
	if err := decorator.Fprint(&buf, f); err != nil {
		fmt.Println("FAIL: print error:", err)
		os.Exit(1)
	}

	// what go/parser says about the spec: the comment is NOT its line comment
	pf, _ := parser.ParseFile(token.NewFileSet(), "", src, parser.ParseComments)
	parsedHasComment := pf.Decls[0].(*ast.GenDecl).Specs[0].(*ast.ValueSpec).Comment != nil
	// what the restorer builds
	_, rf, _ := decorator.RestoreFile(f)
	restoredHasComment := rf.Decls[0].(*ast.GenDecl).Specs[0].(*ast.ValueSpec).Comment != nil

	if buf.String() != src {
		fmt.Printf("FAIL: unmodified canonical file is printed differently (ValueSpec.Comment set: parser=%v restorer=%v): want %q got %q\n",
			parsedHasComment, restoredHasComment, src, buf.String())
		os.Exit(1)
	}
	fmt.Println("PASS")
}
