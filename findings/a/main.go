package main

import (
	"bytes"
	"fmt"
	"os"

	"github.com/dave/dst"
	"github.com/dave/dst/decorator"
)

func main() {
	f, err := decorator.Parse("package a\n\nfunc f(a int) {}\n")
	if err != nil {
		panic(err)
	}
	fd := f.Decls[0].(*dst.FuncDecl)
	fd.Type.Decs.Params.Append("/* sig */")
	var b1, b2 bytes.Buffer
	decorator.Fprint(&b1, f)
	g := dst.Clone(f).(*dst.File)
	decorator.Fprint(&b2, g)
	fmt.Printf("original:\n%s\nclone:\n%s\n", b1.String(), b2.String())
	if b1.String() != b2.String() {
		fmt.Println("FAIL: clone prints differently")
		os.Exit(1)
	}
	fmt.Println("PASS")
}
