// Removing the last use of an ordinary import from a parenthesised import declaration that
// also holds `import "C"` with its preamble written as the doc comment of the "C" spec
// leaves one spec; the restorer then drops the parentheses but keeps the spec's own
// line/comment decorations. In `import <newline> // preamble <newline> "C"` the comment is no
// longer the doc comment of anything, so cgo sees an empty preamble and the file stops
// compiling.
package main

import (
	"bytes"
	"fmt"
	"go/ast"
	"go/parser"
	"go/token"
	"os"

	"github.com/dave/dst"
	"github.com/dave/dst/decorator"
	"github.com/dave/dst/decorator/resolver/goast"
	"github.com/dave/dst/decorator/resolver/guess"
)

const src = `package p

import (
	// #include <stdlib.h>
	"C"

	"fmt"
)

func f() {
	fmt.Println("x")
	C.free(nil)
}
`

// preamble returns the cgo preamble exactly as cmd/cgo computes it (cmd/cgo/ast.go, ParseGo):
// the Doc of the "C" import spec, or the Doc of the declaration if that has a single spec.
func preamble(f *ast.File) (text string, imports int) {
	for _, d := range f.Decls {
		gd, ok := d.(*ast.GenDecl)
		if !ok || gd.Tok != token.IMPORT {
			continue
		}
		for _, s := range gd.Specs {
			is := s.(*ast.ImportSpec)
			if is.Path.Value != `"C"` {
				continue
			}
			imports++
			cg := is.Doc
			if cg == nil && len(gd.Specs) == 1 {
				cg = gd.Doc
			}
			if cg != nil {
				text += cg.Text()
			}
		}
	}
	return
}

func main() {
	fset := token.NewFileSet()
	f, err := parser.ParseFile(fset, "a.go", src, parser.ParseComments)
	if err != nil {
		panic(err)
	}
	want, _ := preamble(f)

	df, err := decorator.NewDecoratorWithImports(fset, "local/p", goast.New()).DecorateFile(f)
	if err != nil {
		panic(err)
	}

	// the edit: delete the statement fmt.Println("x") - the last use of "fmt"
	fn := df.Decls[1].(*dst.FuncDecl)
	fn.Body.List = fn.Body.List[1:]

	var buf bytes.Buffer
	if err := decorator.NewRestorerWithImports("local/p", guess.New()).Fprint(&buf, df); err != nil {
		fmt.Println("FAIL: restore:", err)
		os.Exit(1)
	}
	out := buf.String()

	f2, err := parser.ParseFile(token.NewFileSet(), "a.go", out, parser.ParseComments)
	if err != nil {
		fmt.Printf("FAIL: output does not parse: %v\n%s", err, out)
		os.Exit(1)
	}
	got, n := preamble(f2)
	if n != 1 || got != want {
		fmt.Printf("FAIL: cgo preamble of import \"C\" was %q, is %q after removing the last use of \"fmt\"; output:\n%s", want, got, out)
		os.Exit(1)
	}
	fmt.Println("PASS")
}
