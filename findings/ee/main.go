// Property C02: comments travel with their node when a sibling list is edited.
//
// The sibling list here is the list of statements of a case clause (CaseClause.Body, and in
// the same way CommClause.Body). The last statement of the body carries a trailing comment on
// its own line. The statements are swapped / the last one is deleted / the last one is moved
// into another function, and the printed result is compared with gofmt of the source in which
// the same lines were edited by hand.
package main

import (
	"bytes"
	"fmt"
	"go/format"
	"os"
	"strings"

	"github.com/dave/dst"
	"github.com/dave/dst/decorator"
)

const header = "package p\n\nfunc f() {\n\tswitch x {\n\tcase 1:\n"
const middle = "\tcase 2:\n\t\tc()\n\t}\n}\n\nfunc g() {\n"
const footer = "}\n"

var chunkA = "\t\ta() // about a\n"
var chunkB = "\t\tb() // about b\n"
var chunkD = "\td()\n"

func build(body []string, g []string) string {
	return header + strings.Join(body, "") + middle + strings.Join(g, "") + footer
}

func gofmt(s string) string {
	b, err := format.Source([]byte(s))
	if err != nil {
		panic(err)
	}
	return string(b)
}

func parse() (*dst.File, *dst.CaseClause, *dst.BlockStmt) {
	src := build([]string{chunkA, chunkB}, []string{chunkD})
	if gofmt(src) != src {
		panic("the source is not gofmt-formatted")
	}
	f, err := decorator.Parse(src)
	if err != nil {
		panic(err)
	}
	cc := f.Decls[0].(*dst.FuncDecl).Body.List[0].(*dst.SwitchStmt).Body.List[0].(*dst.CaseClause)
	g := f.Decls[1].(*dst.FuncDecl).Body
	return f, cc, g
}

func print(f *dst.File) string {
	var buf bytes.Buffer
	if err := decorator.Fprint(&buf, f); err != nil {
		panic(err)
	}
	return buf.String()
}

func main() {
	failed := ""
	check := func(name, got, want string) {
		if got != want {
			failed += name + " "
			fmt.Printf("--- %s: want\n%s--- got\n%s", name, want, got)
		}
	}

	// 0. sanity: no edit
	{
		f, _, _ := parse()
		check("round trip", print(f), build([]string{chunkA, chunkB}, []string{chunkD}))
	}

	// 1. swap the two statements of the case body
	{
		f, cc, _ := parse()
		cc.Body[0], cc.Body[1] = cc.Body[1], cc.Body[0]
		// the layout is uniform: every statement on its own line
		cc.Body[0].Decorations().After = dst.NewLine
		cc.Body[1].Decorations().Before = dst.NewLine
		check("swap", print(f), gofmt(build([]string{chunkB, chunkA}, []string{chunkD})))
	}

	// 2. delete the last statement of the case body
	{
		f, cc, _ := parse()
		cc.Body = cc.Body[:1]
		check("delete", print(f), gofmt(build([]string{chunkA}, []string{chunkD})))
	}

	// 3. move the last statement of the case body into another function
	{
		f, cc, g := parse()
		b := cc.Body[1]
		cc.Body = cc.Body[:1]
		b.Decorations().Before = dst.NewLine
		b.Decorations().After = dst.NewLine
		g.List = append(g.List, b)
		check("move", print(f), gofmt(build([]string{chunkA}, []string{chunkD, "\tb() // about b\n"})))
	}

	if failed != "" {
		fmt.Printf("FAIL: %s: the trailing comment of the last statement of a case body does not travel with the statement (it is stored on the CaseClause)\n", failed)
		os.Exit(1)
	}
	fmt.Println("PASS")
}
