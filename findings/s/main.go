package main

import (
	"bytes"
	"fmt"
	"go/format"
	"os"

	"github.com/dave/dst/decorator"
)

var srcs = []string{
	// wrapped call, comment at body indent
	"package p\n\nfunc f(k string) {\n\tswitch k {\n\tcase \"a\":\n\t\tg(k,\n\t\t\tk)\n\t\t// hanging\n\tcase \"b\":\n\t\tg(k)\n\t}\n}\n",
	// wrapped call, comment at body indent, blank line, comment at clause indent
	"package p\n\nfunc f(k string) {\n\tswitch k {\n\tcase \"a\":\n\t\tg(k,\n\t\t\tk)\n\t\t// hanging\n\n\t// next\n\tcase \"b\":\n\t\tg(k)\n\t}\n}\n",
	// wrapped call, only comment at clause indent
	"package p\n\nfunc f(k string) {\n\tswitch k {\n\tcase \"a\":\n\t\tg(k,\n\t\t\tk)\n\t// next\n\tcase \"b\":\n\t\tg(k)\n\t}\n}\n",
	// select
	"package p\n\nfunc f(c chan int) {\n\tselect {\n\tcase <-c:\n\t\tg(1,\n\t\t\t2)\n\t\t// hanging\n\tdefault:\n\t\tg(1)\n\t}\n}\n",
	// last clause
	"package p\n\nfunc f(k string) {\n\tswitch k {\n\tcase \"a\":\n\t\tg(k,\n\t\t\tk)\n\t\t// hanging\n\t}\n}\n",
	// func literal
	"package p\n\nfunc f(k string) {\n\tswitch k {\n\tcase \"a\":\n\t\tgo func() {\n\t\t\tg(k)\n\t\t}()\n\t\t// hanging\n\tcase \"b\":\n\t}\n}\n",
	// multi-line binary expression
	"package p\n\nfunc f(k string) {\n\tswitch k {\n\tcase \"a\":\n\t\tx = a +\n\t\t\tb +\n\t\t\tc\n\t\t// hanging\n\n\t\t// hanging 2\n\tcase \"b\":\n\t}\n}\n",
	// multi-line case list
	"package p\n\nfunc f(k string) {\n\tswitch k {\n\tcase \"a\",\n\t\t\"c\":\n\t\t// hanging\n\tcase \"b\":\n\t}\n}\n",
	// composite literal
	"package p\n\nfunc f(k string) {\n\tswitch k {\n\tcase \"a\":\n\t\tx = T{\n\t\t\tA: 1,\n\t\t}\n\t\t// hanging\n\tdefault:\n\t\t// only\n\t}\n}\n",
}

func main() {
	bad := 0
	for i, src := range srcs {
		want, err := format.Source([]byte(src))
		if err != nil || string(want) != src {
			fmt.Printf("%d input not canonical: %v\n%s", i, err, want)
			bad++
			continue
		}
		f, err := decorator.Parse(src)
		if err != nil {
			panic(err)
		}
		var buf bytes.Buffer
		if err := decorator.Fprint(&buf, f); err != nil {
			panic(err)
		}
		if buf.String() != src {
			fmt.Printf("FAIL %d:\n%s", i, buf.String())
			bad++
		}
	}
	if bad > 0 {
		os.Exit(1)
	}
	fmt.Println("PASS")
}
