package main

import (
	"fmt"
	"go/parser"
	"go/token"
	"os"
	"path/filepath"

	"github.com/dave/dst/decorator"
	"github.com/dave/dst/decorator/resolver/goast"
	"github.com/dave/dst/decorator/resolver/guess"
)

func main() {
	dir, _ := os.MkdirTemp("", "pk")
	defer os.RemoveAll(dir)
	os.WriteFile(filepath.Join(dir, "a.go"), []byte("package p\n\nimport \"fmt\"\n\nfunc A() { fmt.Println(1) }\n"), 0o644)
	os.WriteFile(filepath.Join(dir, "b.go"), []byte("package p\n\nimport \"os\"\n\nfunc B() { os.Exit(1) }\n"), 0o644)
	defer func() {
		if r := recover(); r != nil {
			fmt.Println("PANIC:", r)
			os.Exit(1)
		}
	}()
	d := decorator.NewDecoratorWithImports(token.NewFileSet(), "p", goast.New())
	pkgs, err := d.ParseDir(dir, nil, parser.ParseComments)
	fmt.Println(len(pkgs), err)
	for _, p := range pkgs {
		for n, f := range p.Files {
			fmt.Println("==", filepath.Base(n))
			r := decorator.NewRestorerWithImports("p", guess.New())
			if err := r.Print(f); err != nil {
				fmt.Println("ERR", err)
			}
		}
	}
}
