package main

import (
	"bytes"
	"fmt"
	"os"

	"github.com/dave/dst/decorator"
	"github.com/dave/dst/decorator/resolver/goast"
	"github.com/dave/dst/decorator/resolver/guess"
)

func main() {
	// a cgo file whose "C" import shares a block with a blank import of a package whose path sorts
	// before "C" (no dot in the path, upper-case first letter): legal Go.
	src := "package p\n\n/*\n#include <stdlib.h>\n*/\nimport (\n\t_ \"B/driver\"\n\t\"C\"\n)\n\nvar _ = C.free\n"
	dec := decorator.NewDecoratorWithImports(nil, "p", goast.New())
	f, err := dec.Parse(src)
	if err != nil {
		panic(err)
	}
	res := decorator.NewRestorerWithImports("p", guess.New())
	var buf bytes.Buffer
	if err := res.Fprint(&buf, f); err != nil {
		fmt.Println("FAIL: unedited file no longer prints:", err)
		os.Exit(1)
	}
	if buf.String() != src {
		fmt.Printf("FAIL: unedited file printed differently:\n%s", buf.String())
		os.Exit(1)
	}
	fmt.Println("PASS")
}
