// Property C20: saving an unedited, gofmt-canonical package must leave the bytes on disk unchanged.
//
// A //line directive that sits in column 1 inside an indented block (what goyacc, templ, ragel,
// cgo etc. generate) is gofmt-canonical: gofmt keeps it in column 1, because a //line comment is
// only a directive when it starts the line. Package.SaveWithResolver re-indents it, so the file
// changes on disk and the directive stops being a directive.
package main

import (
	"bytes"
	"fmt"
	"go/ast"
	"go/format"
	"go/importer"
	"go/parser"
	"go/token"
	"go/types"
	"os"
	"path/filepath"

	"github.com/dave/dst/decorator"
	"github.com/dave/dst/decorator/resolver/guess"
	"golang.org/x/tools/go/packages"
)

const pkgPath = "example.com/p"

var sources = map[string]string{
	"plain.go": `package p

func Plain() int { return 1 }
`,
	"y.go": `package p

func Y(n int) int {
	switch n {
	case 1:
//line y.y:10
		return 10
	case 2:
//line y.y:12
		return 20
	}
	return 0
}
`,
}

// load builds a decorator.Package by hand, the same way decorator.Load does it (a Decorator made
// with NewDecoratorFromPackage, one DecorateFile call per source file).
func load(dir string, names []string) (*decorator.Package, error) {
	fset := token.NewFileSet()
	var files []*ast.File
	var paths []string
	for _, name := range names {
		path := filepath.Join(dir, name)
		f, err := parser.ParseFile(fset, path, nil, parser.ParseComments)
		if err != nil {
			return nil, err
		}
		files = append(files, f)
		paths = append(paths, path)
	}
	info := &types.Info{
		Uses: map[*ast.Ident]types.Object{},
		Defs: map[*ast.Ident]types.Object{},
	}
	conf := types.Config{Importer: importer.ForCompiler(fset, "source", nil)}
	tpkg, err := conf.Check(pkgPath, fset, files, info)
	if err != nil {
		return nil, err
	}
	pkg := &packages.Package{
		ID: pkgPath, Name: tpkg.Name(), PkgPath: pkgPath,
		Fset: fset, Syntax: files, GoFiles: paths, Types: tpkg, TypesInfo: info,
	}
	p := &decorator.Package{Package: pkg, Dir: dir, Imports: map[string]*decorator.Package{}}
	p.Decorator = decorator.NewDecoratorFromPackage(pkg)
	for _, f := range files {
		df, err := p.Decorator.DecorateFile(f)
		if err != nil {
			return nil, err
		}
		p.Syntax = append(p.Syntax, df)
	}
	return p, nil
}

func main() {
	if err := run(); err != nil {
		fmt.Println("FAIL:", err)
		os.Exit(1)
	}
	fmt.Println("PASS")
}

func run() error {
	dir, err := os.MkdirTemp("", "dst-c20-line")
	if err != nil {
		return err
	}
	defer os.RemoveAll(dir)

	var names []string
	for name, src := range sources {
		// precondition of the property: the source is gofmt-canonical
		formatted, err := format.Source([]byte(src))
		if err != nil {
			return fmt.Errorf("bad demo: %s does not parse: %v", name, err)
		}
		if !bytes.Equal(formatted, []byte(src)) {
			return fmt.Errorf("bad demo: %s is not gofmt-canonical", name)
		}
		if err := os.WriteFile(filepath.Join(dir, name), []byte(src), 0666); err != nil {
			return err
		}
		names = append(names, name)
	}

	p, err := load(dir, names)
	if err != nil {
		return fmt.Errorf("bad demo: load: %v", err)
	}

	// no edits at all
	if err := p.SaveWithResolver(guess.New()); err != nil {
		return fmt.Errorf("save returned an error: %v", err)
	}

	entries, err := os.ReadDir(dir)
	if err != nil {
		return err
	}
	if len(entries) != len(sources) {
		return fmt.Errorf("%d files in the directory after saving, want %d", len(entries), len(sources))
	}
	for name, src := range sources {
		got, err := os.ReadFile(filepath.Join(dir, name))
		if err != nil {
			return err
		}
		if string(got) != src {
			fmt.Printf("--- %s before save ---\n%s--- %s after save ---\n%s", name, src, name, got)
			return fmt.Errorf("saving the unedited gofmt-canonical file %s changed its bytes: the column-1 //line directives were re-indented (and are no longer directives)", name)
		}
	}
	return nil
}
