package main

import (
	"bytes"
	"fmt"
	"go/token"
	"os"
	"path/filepath"

	"github.com/dave/dst/decorator"
)

func main() {
	dir, _ := os.MkdirTemp("", "dstg")
	defer os.RemoveAll(dir)
	a := "package p\n\nvar s = `a\nb\nc\nd\ne\nf`\n"
	b := "package p\n\nvar x = f(\n\t1,\n\t2,\n\t3,\n)\n"
	os.WriteFile(filepath.Join(dir, "a.go"), []byte(a), 0o644)
	os.WriteFile(filepath.Join(dir, "b.go"), []byte(b), 0o644)
	pkgs, err := decorator.ParseDir(token.NewFileSet(), dir, nil, 0)
	if err != nil {
		panic(err)
	}
	bad := 0
	for name, f := range pkgs["p"].Files {
		var buf bytes.Buffer
		if err := decorator.Fprint(&buf, f); err != nil {
			panic(err)
		}
		want := map[string]string{"a.go": a, "b.go": b}[filepath.Base(name)]
		if buf.String() != want {
			fmt.Printf("FAIL: %s not reproduced byte for byte:\n%s", filepath.Base(name), buf.String())
			bad++
		}
	}
	if bad > 0 {
		os.Exit(1)
	}
	fmt.Println("PASS")
}
