package main

// Finding (e), C12: restored TypeSpec.Assign position precedes TypeParams' positions, the
// opposite of a real parse. Finding (f), C12/C16: with Extras, object Decl nodes that are not
// in the tree (RangeStmt's synthetic AssignStmt) get positions after the file was registered.

import (
	"fmt"
	"go/ast"
	"go/parser"
	"go/token"
	"os"

	"github.com/dave/dst/decorator"
)

func main() {
	bad := 0
	// (e)
	src := "package a\n\ntype A[P any] = B[P]\n\ntype B[P any] struct{}\n"
	f, err := decorator.Parse(src)
	if err != nil {
		panic(err)
	}
	fset, af, err := decorator.RestoreFile(f)
	if err != nil {
		panic(err)
	}
	_ = fset
	ts := af.Decls[0].(*ast.GenDecl).Specs[0].(*ast.TypeSpec)
	pf, _ := parser.ParseFile(token.NewFileSet(), "", src, 0)
	pts := pf.Decls[0].(*ast.GenDecl).Specs[0].(*ast.TypeSpec)
	fmt.Printf("(e) restored: Assign=%d TypeParams.Opening=%d   parsed: Assign=%d TypeParams.Opening=%d\n", ts.Assign, ts.TypeParams.Opening, pts.Assign, pts.TypeParams.Opening)
	if (ts.Assign < ts.TypeParams.Opening) != (pts.Assign < pts.TypeParams.Opening) {
		fmt.Println("FINDING (e): relative order of Assign and TypeParams differs from a real parse")
		bad++
	}
	// (f)
	src2 := "package a\n\nfunc f(x []int) {\n\tfor k := range x {\n\t\t_ = k\n\t}\n\tfor j := range x {\n\t\t_ = j\n\t}\n}\n"
	d := decorator.NewDecorator(token.NewFileSet())
	f2, err := d.Parse(src2)
	if err != nil {
		panic(err)
	}
	r := decorator.NewRestorer()
	r.Extras = true
	af2, err := r.RestoreFile(f2)
	if err != nil {
		panic(err)
	}
	tf := r.Fset.File(af2.Pos())
	end := token.Pos(tf.Base() + tf.Size())
	ast.Inspect(af2, func(n ast.Node) bool {
		id, ok := n.(*ast.Ident)
		if !ok || id.Obj == nil {
			return true
		}
		if as, ok := id.Obj.Decl.(*ast.AssignStmt); ok {
			if as.TokPos > end {
				fmt.Printf("FINDING (f): object %s Decl AssignStmt.TokPos=%d beyond the registered file end %d\n", id.Name, as.TokPos, end)
				bad++
			}
		}
		return true
	})
	if bad > 0 {
		os.Exit(1)
	}
	fmt.Println("PASS")
}
