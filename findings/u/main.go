// Finding 2 (C03): blank lines that are not exactly two adjacent '\n' bytes (CRLF files, or a
// "blank" line that holds a space or tab) are not seen as blank lines. Import groups are merged
// and format.Node re-sorts them (tokens reordered / dropped), and a free comment becomes a doc
// comment whose text go/printer then rewrites.
package main

import (
	"bytes"
	"fmt"
	"go/format"
	"go/parser"
	"go/scanner"
	"go/token"
	"os"
	"strings"

	"github.com/dave/dst/decorator"
)

type tk struct {
	tok token.Token
	lit string
}

// scan returns the token sequence (kinds + identifier / literal text, automatic semicolons
// ignored) and the comment texts.
func scan(src []byte) (toks []tk, comments []string) {
	fset := token.NewFileSet()
	f := fset.AddFile("", -1, len(src))
	var s scanner.Scanner
	s.Init(f, src, nil, scanner.ScanComments)
	for {
		_, tok, lit := s.Scan()
		if tok == token.EOF {
			return
		}
		switch {
		case tok == token.COMMENT:
			comments = append(comments, lit)
		case tok == token.SEMICOLON:
		case tok.IsLiteral():
			toks = append(toks, tk{tok, lit})
		default:
			toks = append(toks, tk{tok, ""})
		}
	}
}

func check(name, src string) (problems []string) {
	if _, err := parser.ParseFile(token.NewFileSet(), "", src, parser.ParseComments); err != nil {
		fmt.Println("SETUP ERROR: input does not parse:", err)
		os.Exit(2)
	}
	want, err := format.Source([]byte(src))
	if err != nil {
		fmt.Println("SETUP ERROR: gofmt failed:", err)
		os.Exit(2)
	}
	f, err := decorator.Parse(src)
	if err != nil {
		return []string{name + ": Parse: " + err.Error()}
	}
	var buf bytes.Buffer
	if err := decorator.Fprint(&buf, f); err != nil {
		return []string{name + ": Fprint: " + err.Error()}
	}
	wantToks, wantComments := scan(want)
	gotToks, gotComments := scan(buf.Bytes())
	_, inComments := scan([]byte(src))

	if fmt.Sprint(wantToks) != fmt.Sprint(gotToks) {
		problems = append(problems, fmt.Sprintf("%s: token sequence differs from gofmt's:\n  gofmt: %v\n  dst:   %v", name, wantToks, gotToks))
	}
	// comments must be the input's comment texts (gofmt leaves them alone in these inputs)
	if strings.Join(inComments, "\n") != strings.Join(wantComments, "\n") {
		fmt.Println("SETUP ERROR: gofmt itself rewrites the comments of", name)
		os.Exit(2)
	}
	if strings.Join(inComments, "\n") != strings.Join(gotComments, "\n") {
		problems = append(problems, fmt.Sprintf("%s: comment texts differ from the input's:\n  input: %q\n  dst:   %q", name, inComments, gotComments))
	}
	return problems
}

func main() {
	var problems []string

	// (a) an ordinary file checked out with CRLF line endings
	crlf := strings.ReplaceAll(`package p

import (
	"time"

	"golang.org/x/time/rate"
)

var _ = time.Now
var _ = rate.Inf
`, "\n", "\r\n")
	problems = append(problems, check("crlf imports", crlf)...)

	// (b) LF file, but the separator line between the import groups holds a stray tab
	stray := "package p\n\nimport (\n\t\"time\"\n\t\n\t\"golang.org/x/time/rate\"\n)\n\nvar _ = time.Now\nvar _ = rate.Inf\n"
	problems = append(problems, check("whitespace-only line between import groups", stray)...)

	// (c) duplicate import in two groups: gofmt keeps both, dst output drops one
	dup := "package p\n\nimport (\n\t\"io\"\n \n\t\"io\"\n)\n\nvar _ io.Reader\n"
	problems = append(problems, check("duplicate import in second group", dup)...)

	// (d) a free-standing comment, separated from the next declaration by a CRLF blank line
	free := strings.ReplaceAll(`package p

import (
	"fmt"
)

var _ = fmt.Sprint

// Invariants:
//
// - first item
//   continued
// - second item

func f() {}
`, "\n", "\r\n")
	problems = append(problems, check("crlf free comment", free)...)

	if len(problems) > 0 {
		fmt.Printf("FAIL: C03 violated in %d checks: blank lines written as \\r\\n or holding whitespace are lost, so imports are regrouped/reordered and comments rewritten\n", len(problems))
		for _, p := range problems {
			fmt.Println(p)
		}
		os.Exit(1)
	}
	fmt.Println("PASS")
}
