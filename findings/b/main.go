package main

import (
	"fmt"
	"go/ast"
	"os"

	"github.com/dave/dst"
	"github.com/dave/dst/decorator"
	"github.com/dave/dst/decorator/resolver/goast"
	"github.com/dave/dst/decorator/resolver/guess"
)

func main() {
	src := "package a\n\nimport \"fmt\"\n\nfunc f() { fmt.Println() }\n"
	d := decorator.NewDecoratorWithImports(nil, "a", goast.New())
	f, err := d.Parse(src)
	if err != nil {
		panic(err)
	}
	r := decorator.NewRestorerWithImports("a", guess.New())
	af, err := r.RestoreFile(f)
	if err != nil {
		panic(err)
	}
	bad := 0
	// law 1: no nil keys
	for k := range r.Dst.Nodes {
		if k == nil || fmt.Sprintf("%v", k) == "<nil>" {
			fmt.Printf("FAIL: nil key in Restorer.Dst.Nodes (%T)\n", k)
			bad++
		}
	}
	// law 2: every ast node created has a dst counterpart and maps back
	ast.Inspect(af, func(n ast.Node) bool {
		if n == nil {
			return true
		}
		switch n.(type) {
		case *ast.Comment, *ast.CommentGroup:
			return true
		}
		dn, ok := r.Dst.Nodes[n]
		if !ok {
			fmt.Printf("FAIL: ast node %T has no dst counterpart\n", n)
			bad++
			return true
		}
		// selector expansion: X and Sel of an expanded Ident map to the dst Ident
		if back, ok := r.Ast.Nodes[dn]; !ok {
			fmt.Printf("FAIL: dst node %T for ast %T does not map back\n", dn, n)
			bad++
		} else if back != n {
			if _, isIdent := dn.(*dst.Ident); !isIdent {
				fmt.Printf("FAIL: maps not inverse for %T\n", n)
				bad++
			}
		}
		return true
	})
	if bad > 0 {
		os.Exit(1)
	}
	fmt.Println("PASS")
}
