// Property C18: restoring with extras enabled rebuilds, on the ast side, an object graph that is
// isomorphic to the dst one - for all parseable files AND multi-file packages, including cyclic
// object/declaration links.
//
// Two files of one package call each other's functions. After ast.NewPackage has resolved the
// cross-file identifiers, the package is decorated (the dst graph is correct: the use of B in a.go
// and the declaration of B in b.go share one object whose Decl is B's FuncDecl in b.go). Restoring
// the two files with one Restorer that has Extras = true cannot rebuild that graph: restoring a.go
// restores b.go's FuncDecl as a side effect (deferred Decl restoration), so restoring b.go panics
// with "duplicate node".
package main

import (
	"fmt"
	"go/ast"
	"go/parser"
	"go/token"
	"os"

	"github.com/dave/dst"
	"github.com/dave/dst/decorator"
)

const srcA = `package p

// A calls B.
func A() {
	B()
}
`

const srcB = `package p

// B calls A.
func B() {
	A()
}
`

func main() {
	fset := token.NewFileSet()
	fa, err := parser.ParseFile(fset, "a.go", srcA, parser.ParseComments)
	if err != nil {
		panic(err)
	}
	fb, err := parser.ParseFile(fset, "b.go", srcB, parser.ParseComments)
	if err != nil {
		panic(err)
	}
	pkg, err := ast.NewPackage(fset, map[string]*ast.File{"a.go": fa, "b.go": fb}, nil, nil)
	if err != nil {
		panic(err) // no errors expected: everything resolves inside the package
	}

	d := decorator.NewDecorator(fset)
	n, err := d.DecorateNode(pkg)
	if err != nil {
		panic(err)
	}
	dp := n.(*dst.Package)

	// sanity: the dst graph is what the property promises for decoration
	useOfB := dp.Files["a.go"].Decls[0].(*dst.FuncDecl).Body.List[0].(*dst.ExprStmt).X.(*dst.CallExpr).Fun.(*dst.Ident)
	declOfB := dp.Files["b.go"].Decls[0].(*dst.FuncDecl)
	if useOfB.Obj == nil || useOfB.Obj != declOfB.Name.Obj || useOfB.Obj.Decl != declOfB {
		fmt.Println("FAIL: decoration did not map the cross-file object graph")
		os.Exit(1)
	}

	r := decorator.NewRestorer()
	r.Extras = true
	restored := map[string]*ast.File{}
	for _, name := range []string{"a.go", "b.go"} {
		var panicked interface{}
		func() {
			defer func() { panicked = recover() }()
			af, err := r.RestoreFile(dp.Files[name])
			if err != nil {
				panic(err)
			}
			restored[name] = af
		}()
		if panicked != nil {
			fmt.Printf("FAIL: restoring %s (after the other file of the package) panicked: %.60v...\n", name, panicked)
			os.Exit(1)
		}
	}

	// the ast graph must be isomorphic to the dst graph
	rUse := restored["a.go"].Decls[0].(*ast.FuncDecl).Body.List[0].(*ast.ExprStmt).X.(*ast.CallExpr).Fun.(*ast.Ident)
	rDecl := restored["b.go"].Decls[0].(*ast.FuncDecl)
	if rUse.Obj == nil || rUse.Obj != rDecl.Name.Obj || rUse.Obj.Decl != ast.Node(rDecl) {
		fmt.Println("FAIL: restored use of B in a.go is not linked to the restored declaration of B in b.go")
		os.Exit(1)
	}
	fmt.Println("PASS")
}
