// Finding 3: decorating anything but a whole *ast.File / *ast.Package with the syntax-only
// resolver crashes with a nil pointer dereference instead of returning an error.
//
// Decorator.DecorateNode accepts any ast.Node ("file ... can be nil if we're just decorating an
// isolated node", decorator.go). With import management the decorator then calls
// Resolver.ResolveIdent(nil, ...). The types-based resolver ignores the file; the syntax-only
// resolver (goast) walks it unconditionally.
package main

import (
	"fmt"
	"go/ast"
	"go/parser"
	"go/token"
	"os"

	"github.com/dave/dst"
	"github.com/dave/dst/decorator"
	"github.com/dave/dst/decorator/resolver/goast"
)

const src = `package p

import "fmt"

func F() { fmt.Println() }
`

func main() {
	fset := token.NewFileSet()
	file, err := parser.ParseFile(fset, "p.go", src, parser.ParseComments)
	if err != nil {
		panic(err)
	}
	var fn *ast.FuncDecl
	for _, d := range file.Decls {
		if fd, ok := d.(*ast.FuncDecl); ok {
			fn = fd
		}
	}

	var node dst.Node
	var derr error
	var panicked interface{}
	func() {
		defer func() { panicked = recover() }()
		dec := decorator.NewDecoratorWithImports(fset, "ex.com/p", goast.New())
		node, derr = dec.DecorateNode(fn) // one declaration of the file, not the file
	}()

	switch {
	case panicked != nil:
		fmt.Printf("FAIL: DecorateNode(*ast.FuncDecl) with the goast resolver panics instead of returning an error: %v\n", panicked)
		os.Exit(1)
	case derr != nil:
		// acceptable: "cannot decide" is reported as an error
		fmt.Println("PASS (error returned):", derr)
	default:
		// also acceptable if every identifier was classified
		fmt.Println("PASS", node != nil)
	}
}
