// Finding 1: a path that is imported twice in one file (legal Go, and present in the Go standard
// library: net/http/server.go, crypto/x509/x509.go, internal/godebug/godebug.go, runtime/rand.go,
// reflect/badlinkname.go) is not restored transparently; both specs are rewritten to the same
// name, which changes the file and, when the two specs are not adjacent, produces a file that
// declares the same import name twice and no longer compiles.
package main

import (
	"bytes"
	"fmt"
	"go/ast"
	"go/format"
	"go/importer"
	"go/parser"
	"go/token"
	"go/types"
	"os"
	"strconv"

	"github.com/dave/dst/decorator"
	"github.com/dave/dst/decorator/resolver/goast"
	"github.com/dave/dst/decorator/resolver/guess"
)

// the shape of crypto/x509/x509.go
const x509Shape = `package main

import (
	"crypto/sha1"
	"fmt"

	// Explicitly import these for their crypto.RegisterHash init side-effects.
	// Keep these as blank imports, even if they're imported above.
	_ "crypto/sha1"
	_ "crypto/sha256"
)

func main() {
	fmt.Println(sha1.Size)
}
`

// the shape of net/http/server.go and net/http/request.go
const httpShape = `package main

import (
	"fmt"
	"net/url"
	urlpkg "net/url"
)

func main() {
	var url *urlpkg.URL
	fmt.Println(url, urlpkg.PathEscape("a b"))
}

func parse(s string) (*url.URL, error) { return url.Parse(s) }
`

// two separate import declarations
const twoDecls = `package main

import f "fmt"
import g "fmt"

func main() {
	f.Println()
	g.Println()
}
`

func roundTrip(src string) (string, error) {
	d := decorator.NewDecoratorWithImports(token.NewFileSet(), "main", goast.New())
	f, err := d.Parse(src)
	if err != nil {
		return "", err
	}
	r := decorator.NewRestorerWithImports("main", guess.New())
	var buf bytes.Buffer
	if err := r.Fprint(&buf, f); err != nil {
		return "", err
	}
	return buf.String(), nil
}

// check returns a list of violations for one input
func check(name, src string) []string {
	var bad []string

	// preconditions: canonical and type-correct
	if b, err := format.Source([]byte(src)); err != nil || string(b) != src {
		panic(name + ": input is not gofmt-canonical")
	}
	if err := typeCheck(src); err != nil {
		panic(name + ": input does not type-check: " + err.Error())
	}

	out, err := roundTrip(src)
	if err != nil {
		return []string{name + ": restore error: " + err.Error()}
	}

	// C08: nothing was edited, so the file must come back byte for byte
	if out != src {
		bad = append(bad, name+": unedited file is not reproduced byte for byte")
	}

	// C07: names bound by ordinary imports are pairwise distinct; each path once (+ blank imports)
	af, err := parser.ParseFile(token.NewFileSet(), "", out, 0)
	if err != nil {
		return append(bad, name+": output does not parse: "+err.Error())
	}
	names := map[string]int{}
	for _, is := range af.Imports {
		p, _ := strconv.Unquote(is.Path.Value)
		n := guessName(p)
		if is.Name != nil {
			n = is.Name.Name
		}
		if n == "_" || n == "." {
			continue
		}
		names[n]++
	}
	for n, c := range names {
		if c > 1 {
			bad = append(bad, fmt.Sprintf("%s: output binds the import name %q %d times", name, n, c))
		}
	}
	if err := typeCheck(out); err != nil {
		bad = append(bad, name+": output no longer type-checks: "+err.Error())
	}
	if len(bad) > 0 {
		fmt.Printf("---- %s: output\n%s\n", name, out)
	}
	return bad
}

func guessName(p string) string { n, _ := guess.New().ResolvePackage(p); return n }

func typeCheck(src string) error {
	fset := token.NewFileSet()
	af, err := parser.ParseFile(fset, "x.go", src, 0)
	if err != nil {
		return err
	}
	conf := types.Config{Importer: importer.ForCompiler(fset, "source", nil)}
	_, err = conf.Check("main", fset, []*ast.File{af}, nil)
	return err
}

func main() {
	var bad []string
	bad = append(bad, check("x509-shape", x509Shape)...)
	bad = append(bad, check("http-shape", httpShape)...)
	bad = append(bad, check("two-decls", twoDecls)...)
	if len(bad) > 0 {
		fmt.Printf("FAIL: %d violations, first: %s\n", len(bad), bad[0])
		for _, b := range bad[1:] {
			fmt.Println("      also:", b)
		}
		os.Exit(1)
	}
	fmt.Println("PASS")
}
