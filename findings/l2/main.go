// Finding 2: a cgo file decorated with the gotypes resolver loses every "C." qualifier when it
// is restored: C.int becomes int, C.puts(...) becomes puts(...).
package main

import (
	"bytes"
	"fmt"
	"go/ast"
	"go/format"
	"go/importer"
	"go/parser"
	"go/token"
	"go/types"
	"os"
	"strings"

	"github.com/dave/dst"
	"github.com/dave/dst/decorator"
	"github.com/dave/dst/decorator/resolver/gotypes"
	"github.com/dave/dst/decorator/resolver/guess"
	"github.com/dave/dst/dstutil"
)

const src = `package main

// #include <stdio.h>
// #include <stdlib.h>
import "C"

import "unsafe"

type size = C.size_t

func hello(n int) int {
	var x C.int = C.int(n)
	s := C.CString("hello")
	defer C.free(unsafe.Pointer(s))
	C.puts(s)
	return int(x)
}
`

func main() {
	if b, err := format.Source([]byte(src)); err != nil || string(b) != src {
		panic("input is not gofmt-canonical")
	}

	// Type-check the way tools do that must not run cgo: Config.FakeImportC.
	fset := token.NewFileSet()
	af, err := parser.ParseFile(fset, "hello.go", src, parser.ParseComments)
	if err != nil {
		panic(err)
	}
	info := &types.Info{Uses: map[*ast.Ident]types.Object{}}
	conf := types.Config{Importer: importer.Default(), FakeImportC: true}
	if _, err := conf.Check("main", fset, []*ast.File{af}, info); err != nil {
		panic(err)
	}

	d := decorator.NewDecoratorWithImports(fset, "main", gotypes.New(info.Uses))
	f, err := d.DecorateFile(af)
	if err != nil {
		panic(err)
	}

	// Since fix 7bba6b4 the types-based resolver leaves C.x alone (finding w). Identifiers can
	// still carry the path "C" - set by hand or by another resolver - and the restorer must then
	// print them as C.x: collapse every C.x selector into a path-carrying identifier, as the
	// decorator itself did when this finding was made.
	dstutil.Apply(f, func(c *dstutil.Cursor) bool {
		if se, ok := c.Node().(*dst.SelectorExpr); ok {
			if x, ok := se.X.(*dst.Ident); ok && x.Name == "C" && x.Path == "" {
				id := &dst.Ident{Name: se.Sel.Name, Path: "C"}
				id.Decs.Before, id.Decs.After = se.Decs.Before, se.Decs.After
				c.Replace(id)
				return false
			}
		}
		return true
	}, nil)

	// what is recorded now: identifiers that carry the path "C"
	var carried []string
	dst.Inspect(f, func(n dst.Node) bool {
		if id, ok := n.(*dst.Ident); ok && id.Path == "C" {
			carried = append(carried, id.Name)
		}
		return true
	})

	r := decorator.NewRestorerWithImports("main", guess.New())
	var buf bytes.Buffer
	if err := r.Fprint(&buf, f); err != nil {
		fmt.Println("FAIL: restore error:", err)
		os.Exit(1)
	}
	out := buf.String()

	// C07: every identifier that carried the path "C" must be printed as a selector on the
	// import of "C". Count the C.<name> selectors in the output.
	of, err := parser.ParseFile(token.NewFileSet(), "", out, 0)
	if err != nil {
		fmt.Println("FAIL: output does not parse:", err)
		os.Exit(1)
	}
	var selectors []string
	ast.Inspect(of, func(n ast.Node) bool {
		if se, ok := n.(*ast.SelectorExpr); ok {
			if x, ok := se.X.(*ast.Ident); ok && x.Name == "C" {
				selectors = append(selectors, se.Sel.Name)
			}
		}
		return true
	})

	if out != src || strings.Join(selectors, ",") != strings.Join(carried, ",") {
		fmt.Printf("---- output\n%s\n", out)
		fmt.Printf("FAIL: %d identifiers carried the path \"C\" (%s) but the output has %d C.x selectors; unedited file reproduced byte for byte: %v\n",
			len(carried), strings.Join(carried, ","), len(selectors), out == src)
		os.Exit(1)
	}
	fmt.Println("PASS")
}
