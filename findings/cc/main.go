// Property C01: a gofmt-canonical file must come back byte for byte from decorate + print.
//
// The file below is gofmt-canonical. A statement is wrapped so that its last line is two
// levels deeper than its first line (a wrapped binary expression whose last operand is itself
// wrapped). It is followed by a comment on its own line at the normal statement indentation,
// then a blank line. dst prints the comment one level too deep.
package main

import (
	"bytes"
	"fmt"
	"go/format"
	"go/parser"
	"go/token"
	"os"

	"github.com/dave/dst/decorator"
)

const src = `package p

import "strings"

func f(s, prefix string) bool {
	valid := len(s) > 0 &&
		strings.HasPrefix(s,
			prefix)
	// valid is only a first approximation, see below

	return valid
}

func g(base, price, qty int) int {
	total := base +
		price*
			qty
	// total is in cents

	return total
}
`

func firstDiff(a, b []byte) string {
	la, lb := bytes.Split(a, []byte("\n")), bytes.Split(b, []byte("\n"))
	for i := 0; i < len(la) && i < len(lb); i++ {
		if !bytes.Equal(la[i], lb[i]) {
			return fmt.Sprintf("line %d is %q, the input has %q", i+1, lb[i], la[i])
		}
	}
	return fmt.Sprintf("%d lines instead of %d", len(lb), len(la))
}

func main() {
	canon, err := format.Source([]byte(src))
	if err != nil || !bytes.Equal(canon, []byte(src)) {
		fmt.Println("unexpected: the input is not gofmt-canonical", err)
		os.Exit(2)
	}

	// entry point 1: string helpers
	f, err := decorator.Parse(src)
	if err != nil {
		fmt.Println("unexpected:", err)
		os.Exit(2)
	}
	var out1 bytes.Buffer
	if err := decorator.Fprint(&out1, f); err != nil {
		fmt.Println("unexpected:", err)
		os.Exit(2)
	}

	// entry point 2: explicit decorator / restorer on a caller-supplied file set
	fset := token.NewFileSet()
	f2, err := decorator.NewDecorator(fset).ParseFile("a.go", src, parser.ParseComments)
	if err != nil {
		fmt.Println("unexpected:", err)
		os.Exit(2)
	}
	r := decorator.NewRestorer()
	af, err := r.RestoreFile(f2)
	if err != nil {
		fmt.Println("unexpected:", err)
		os.Exit(2)
	}
	var out2 bytes.Buffer
	if err := format.Node(&out2, r.Fset, af); err != nil {
		fmt.Println("unexpected:", err)
		os.Exit(2)
	}

	for _, out := range [][]byte{out1.Bytes(), out2.Bytes()} {
		if !bytes.Equal(out, []byte(src)) {
			fmt.Println("FAIL: comment after a deeply wrapped statement is re-indented: " + firstDiff([]byte(src), out))
			fmt.Println("--- output:\n" + string(out))
			os.Exit(1)
		}
	}
	fmt.Println("PASS")
}
