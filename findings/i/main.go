package main

import (
	"bytes"
	"fmt"
	"go/parser"
	"go/token"
	"os"
	"path/filepath"
	"sort"

	"github.com/dave/dst/decorator"
)

func main() {
	dir, _ := os.MkdirTemp("", "pk")
	defer os.RemoveAll(dir)
	os.WriteFile(filepath.Join(dir, "a.go"), []byte("// Copyright A\n\n// Package p doc A.\npackage p\n\n// A is a.\nvar A = 1\n\n// trailing a\n"), 0o644)
	os.WriteFile(filepath.Join(dir, "b.go"), []byte("// Copyright B\n\n// doc B.\npackage p\n\n// B is b.\nvar B = 2\n\n// trailing b\n"), 0o644)
	os.WriteFile(filepath.Join(dir, "c.go"), []byte("/* c header */\npackage p\n\nfunc C() {\n\t// inside\n}\n"), 0o644)
	seen := map[string]int{}
	for i := 0; i < 200; i++ {
		fset := token.NewFileSet()
		pkgs, err := decorator.ParseDir(fset, dir, nil, parser.ParseComments)
		if err != nil {
			panic(err)
		}
		var out bytes.Buffer
		p := pkgs["p"]
		var names []string
		for n := range p.Files {
			names = append(names, n)
		}
		sort.Strings(names)
		for _, n := range names {
			fmt.Fprintf(&out, "== %s\n", filepath.Base(n))
			if err := decorator.Fprint(&out, p.Files[n]); err != nil {
				panic(err)
			}
		}
		seen[out.String()]++
	}
	fmt.Println("distinct outputs:", len(seen)); for k := range seen { fmt.Println(k) }
	if len(seen) > 1 {
		for k, v := range seen {
			fmt.Printf("---- %d times\n%s\n", v, k)
		}
		os.Exit(1)
	}
}
