// Finding 4 (C01, and C03 for case b): a comment on its own line after the last statement /
// parameter is stored as End decoration ["\n", "<comment>"]. The restorer starts that new line
// at exactly node.End(), so the restored node "ends" on the following line and go/printer's
// line-based layout decisions change:
//   a) return &T{ ... }, nil  + trailing comment  -> the composite literal is indented twice
//   b) multi-line parameter list + /* comment */ before ")" -> the trailing comma is dropped and
//      the output does not even parse.
package main

import (
	"bytes"
	"fmt"
	"go/format"
	"go/parser"
	"go/token"
	"os"

	"github.com/dave/dst/decorator"
)

const srcA = `package p

func f() (*T, error) {
	return &T{
		a: 1,
	}, nil
	// not reached
}
`

const srcB = `package p

func f(
	a int,
	/* b int */) {
}
`

func roundTrip(name, src string) (string, error) {
	canon, err := format.Source([]byte(src))
	if err != nil || string(canon) != src {
		fmt.Println("SETUP ERROR: input", name, "is not gofmt canonical", err)
		os.Exit(2)
	}
	f, err := decorator.Parse(src)
	if err != nil {
		return "", fmt.Errorf("Parse: %v", err)
	}
	var buf bytes.Buffer
	if err := decorator.Fprint(&buf, f); err != nil {
		return "", fmt.Errorf("Fprint: %v", err)
	}
	return buf.String(), nil
}

func main() {
	var problems []string

	outA, err := roundTrip("a", srcA)
	if err != nil {
		problems = append(problems, "a: "+err.Error())
	} else if outA != srcA {
		problems = append(problems, "a: return statement followed by a comment is not reproduced:\n"+outA)
	}

	outB, err := roundTrip("b", srcB)
	if err != nil {
		problems = append(problems, "b: "+err.Error())
	} else {
		if outB != srcB {
			problems = append(problems, "b: parameter list followed by a comment is not reproduced:\n"+outB)
		}
		if _, err := parser.ParseFile(token.NewFileSet(), "", outB, 0); err != nil {
			problems = append(problems, "b: printed file does not parse: "+err.Error())
		}
	}

	if len(problems) > 0 {
		fmt.Printf("FAIL: C01: %d problems: unmodified gofmt-canonical files are not reproduced (node.End() lands on the next line when an End decoration starts with a newline)\n", len(problems))
		for _, p := range problems {
			fmt.Println(p)
		}
		os.Exit(1)
	}
	fmt.Println("PASS")
}
