// A gopackages.RestorerResolver that is shared by restorers running in different
// goroutines is written by every ResolvePackage call.
//
//	go run .         deterministic demonstration: the call writes the resolver's Config
//	go run -race .   the race detector reports the race inside the library (exit status 66)
package main

import (
	"bytes"
	"fmt"
	"go/token"
	"os"
	"sync"

	"github.com/dave/dst/decorator"
	"github.com/dave/dst/decorator/resolver/goast"
	"github.com/dave/dst/decorator/resolver/gopackages"
	"golang.org/x/tools/go/packages"
)

const src = `package p

import "fmt"

func F%d() { fmt.Println(%d) }
`

func main() {
	dir, err := os.Getwd()
	if err != nil {
		panic(err)
	}

	// One package-name resolver, never written by this program after construction, shared by
	// restorers that each work on their own file in their own goroutine.
	shared := gopackages.New(dir)

	var wg sync.WaitGroup
	for i := 0; i < 8; i++ {
		wg.Add(1)
		go func(i int) {
			defer wg.Done()
			d := decorator.NewDecoratorWithImports(token.NewFileSet(), "demo/p", goast.New())
			f, err := d.Parse(fmt.Sprintf(src, i, i))
			if err != nil {
				panic(err)
			}
			r := decorator.NewRestorerWithImports("demo/p", shared)
			var buf bytes.Buffer
			// (whether the lookup itself succeeds in this sandbox does not matter)
			_ = r.Fprint(&buf, f)
		}(i)
	}
	wg.Wait()

	// Deterministic evidence that ResolvePackage is not a read-only operation on the resolver:
	probe := gopackages.WithConfig("", packages.Config{Dir: "", Mode: packages.NeedName, Tests: true})
	probe.Dir = dir
	before := fmt.Sprintf("Dir=%q Mode=%d Tests=%v", probe.Config.Dir, probe.Config.Mode, probe.Config.Tests)
	_, _ = probe.ResolvePackage("fmt")
	after := fmt.Sprintf("Dir=%q Mode=%d Tests=%v", probe.Config.Dir, probe.Config.Mode, probe.Config.Tests)
	if before != after {
		fmt.Printf("resolver state before the call: %s\nresolver state after the call:  %s\n", before, after)
		fmt.Println("FAIL: gopackages.RestorerResolver.ResolvePackage writes r.Config (Dir, Mode, Tests) on every call and packages.Load reads it: sharing the resolver between goroutines is a data race (see go run -race .)")
		os.Exit(1)
	}
	fmt.Println("PASS")
}
