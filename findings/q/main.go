// Property C12: the relative order of all token and comment positions of the restored ast equals
// that of a fresh parse of the printed text, so the restored ast can be used for position
// reporting like a parsed one.
//
// The restorer never assigns ast.RangeStmt.Range (position of the "range" keyword) and, for
// receive-only channel types (<-chan T), never assigns ast.ChanType.Arrow. Both stay token.NoPos
// (0), which orders them before the package clause, whereas a fresh parse of the printed text puts
// them between their neighbouring tokens.
package main

import (
	"bytes"
	"fmt"
	"go/ast"
	"go/format"
	"go/parser"
	"go/token"
	"os"

	"github.com/dave/dst/decorator"
)

const src = `package a

func f(ch <-chan int) {
	for range ch {
	}
	for i := range 10 {
		_ = i
	}
}
`

type info struct {
	rangeStmts []*ast.RangeStmt
	chans      []*ast.ChanType
}

func collect(f *ast.File) (in info) {
	ast.Inspect(f, func(n ast.Node) bool {
		switch n := n.(type) {
		case *ast.RangeStmt:
			in.rangeStmts = append(in.rangeStmts, n)
		case *ast.ChanType:
			in.chans = append(in.chans, n)
		}
		return true
	})
	return
}

func main() {
	df, err := decorator.Parse(src)
	if err != nil {
		panic(err)
	}
	r := decorator.NewRestorer()
	af, err := r.RestoreFile(df)
	if err != nil {
		panic(err)
	}
	var buf bytes.Buffer
	if err := format.Node(&buf, r.Fset, af); err != nil {
		panic(err)
	}
	pf, err := parser.ParseFile(token.NewFileSet(), "a.go", buf.Bytes(), parser.ParseComments)
	if err != nil {
		panic(err)
	}
	got, want := collect(af), collect(pf)

	var problems []string
	for i, w := range want.rangeStmts {
		g := got.rangeStmts[i]
		// fresh parse: For < Range < X
		if !(w.For < w.Range && w.Range < w.X.Pos()) {
			panic("unexpected parse")
		}
		if !(g.For < g.Range && g.Range < g.X.Pos()) {
			problems = append(problems, fmt.Sprintf("RangeStmt #%d: fresh parse orders For < Range < X, restored has For=%d Range=%d X=%d", i, g.For, g.Range, g.X.Pos()))
		}
	}
	for i, w := range want.chans {
		g := got.chans[i]
		// fresh parse of "<-chan int": Arrow == Begin < Value
		if !(w.Arrow == w.Begin && w.Arrow < w.Value.Pos()) {
			panic("unexpected parse")
		}
		if !(g.Arrow == g.Begin && g.Arrow < g.Value.Pos()) {
			problems = append(problems, fmt.Sprintf("ChanType #%d (<-chan): fresh parse has Arrow == Begin < Value, restored has Begin=%d Arrow=%d Value=%d", i, g.Begin, g.Arrow, g.Value.Pos()))
		}
	}
	if len(problems) > 0 {
		fmt.Printf("FAIL: %d position(s) left unassigned; first: %s\n", len(problems), problems[0])
		os.Exit(1)
	}
	fmt.Println("PASS")
}
