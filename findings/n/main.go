// Property C12: for all trees obtained by parsing and editing decorations (legal values only), the
// restorer builds a coherent position space: a strictly increasing line table installed in the
// file it registers, so the restored ast can be printed.
//
// A file starts with a licence header, a blank line and the package doc. The user strips the
// licence header by removing the first entry of File.Decs.Start. What is left starts with the
// (legal) "\n" decoration. The restorer records that line break at offset 0 - the offset the line
// table is initialised with - so the table is {0, 0, ...}, token.File.SetLines rejects it and
// RestoreFile panics with "ff.SetLines failed".
package main

import (
	"bytes"
	"fmt"
	"go/format"
	"os"

	"github.com/dave/dst/decorator"
)

const src = `// Copyright 2020 Somebody. All rights reserved.

// Package a does things.
package a

var X = 1
`

func main() {
	f, err := decorator.Parse(src)
	if err != nil {
		panic(err)
	}
	// Start is {"// Copyright ...", "\n", "// Package a does things."}
	if len(f.Decs.Start) != 3 || f.Decs.Start[1] != "\n" {
		panic(fmt.Sprintf("unexpected decorations: %q", f.Decs.Start))
	}
	f.Decs.Start = f.Decs.Start[1:] // strip the licence header

	var panicked interface{}
	var out bytes.Buffer
	var lines []int
	func() {
		defer func() { panicked = recover() }()
		r := decorator.NewRestorer()
		af, err := r.RestoreFile(f)
		if err != nil {
			panic(err)
		}
		lines = r.Fset.File(af.Pos()).Lines()
		if err := format.Node(&out, r.Fset, af); err != nil {
			panic(err)
		}
	}()
	if panicked != nil {
		fmt.Printf("FAIL: RestoreFile panicked for File.Decs.Start = %q: %v\n", f.Decs.Start, panicked)
		os.Exit(1)
	}
	for i := 1; i < len(lines); i++ {
		if lines[i] <= lines[i-1] {
			fmt.Println("FAIL: line table not strictly increasing:", lines)
			os.Exit(1)
		}
	}
	if !bytes.Contains(out.Bytes(), []byte("// Package a does things.\npackage a")) {
		fmt.Printf("FAIL: unexpected output %q\n", out.String())
		os.Exit(1)
	}
	fmt.Println("PASS")
}
