package main

import (
	"bytes"
	"fmt"
	"os"

	"github.com/dave/dst/decorator"
)

func try(name, src string) (bad bool) {
	defer func() {
		if r := recover(); r != nil {
			fmt.Printf("FAIL: %s: panic: %v\n", name, r)
			bad = true
		}
	}()
	f, err := decorator.Parse(src)
	fmt.Printf("%s: file=%v err=%v\n", name, f != nil, err != nil)
	if f != nil {
		var b bytes.Buffer
		if err := decorator.Fprint(&b, f); err != nil {
			fmt.Printf("  print error: %v\n", err)
		}
	}
	return false
}

func main() {
	bad := false
	for _, c := range [][2]string{
		{"empty", ""},
		{"no package clause", "func f() {}\n"},
		{"only comment", "// hello\n"},
		{"garbage", "}}}}{{{{ @@@@ $$$$ ^^^^ !!!! ???? ,,,, ;;;; ]]]] [[[[ ))))\n"},
		{"many errors", "package a\nfunc f() { a b c d e f g h i j k l m n o p q r s t u v w x y z }\nfunc g() { 1 2 3 4 5 6 7 8 9 10 11 12 13 14 15 }\n"},
		{"truncated", "package a\n\nfunc f() {\n\tif x {\n"},
	} {
		if try(c[0], c[1]) {
			bad = true
		}
	}
	if bad {
		os.Exit(1)
	}
	fmt.Println("PASS")
}
