// Finding 4: source with a malformed import path (missing quotes, bad escape, char literal) makes
// the parse entry point of a Decorator with import management panic, and makes printing the tree
// that the plain entry points return panic in a Restorer with import management.
package main

import (
	"bytes"
	"fmt"
	"go/token"
	"os"

	"github.com/dave/dst/decorator"
	"github.com/dave/dst/decorator/resolver/goast"
	"github.com/dave/dst/decorator/resolver/guess"
)

var inputs = []string{
	"package p\n\nimport fmt\n\nfunc f() { fmt.Println() }\n",        // quotes forgotten
	"package p\n\nimport \"a\\qb\"\n\nfunc f() { os.Exit(1) }\n",      // unknown escape sequence
	"package p\n\nimport 'x'\n\nfunc f() { x.F() }\n",                 // char literal
	"package p\n\nimport (\n\t\"os\"\n\tio\n)\n\nfunc f() { os.Exit(1) }\n", // one bad spec in a block
}

func try(what string, f func() error) (problem string) {
	defer func() {
		if r := recover(); r != nil {
			problem = fmt.Sprintf("%s panicked: %v", what, r)
		}
	}()
	_ = f() // an error result is fine
	return ""
}

func main() {
	var problems []string
	for _, src := range inputs {
		src := src

		// control: the plain entry points report the syntax error through the error result and
		// print the partial tree
		if p := try("plain Parse+Fprint", func() error {
			f, err := decorator.Parse(src)
			if f == nil {
				return err
			}
			return decorator.Fprint(&bytes.Buffer{}, f)
		}); p != "" {
			problems = append(problems, fmt.Sprintf("%q: %s", src, p))
		}

		// 1. parse entry point of a decorator with import management
		if p := try("NewDecoratorWithImports(goast).Parse", func() error {
			d := decorator.NewDecoratorWithImports(token.NewFileSet(), "example.com/p", goast.New())
			_, err := d.Parse(src)
			return err
		}); p != "" {
			problems = append(problems, fmt.Sprintf("%q: %s", src, p))
		}

		// 2. printing the tree returned by decorator.Parse with import management
		if p := try("NewRestorerWithImports(guess).Fprint", func() error {
			f, err := decorator.Parse(src)
			if f == nil {
				return err
			}
			r := decorator.NewRestorerWithImports("example.com/p", guess.New())
			return r.Fprint(&bytes.Buffer{}, f)
		}); p != "" {
			problems = append(problems, fmt.Sprintf("%q: %s", src, p))
		}
	}
	if len(problems) > 0 {
		fmt.Printf("FAIL: %d panics, e.g. %s\n", len(problems), problems[0])
		for _, p := range problems[1:] {
			fmt.Fprintln(os.Stderr, "  ", p)
		}
		os.Exit(1)
	}
	fmt.Println("PASS")
}
