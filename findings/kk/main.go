// Finding 2: the restorer puts every comment into a CommentGroup of its own.
// go/printer decides per comment GROUP whether the comments may be printed before the
// next token ("does the group contain a line break?"), so splitting a group changes
// the output. In a range statement a /* */ comment followed by a // comment on the same
// line, between the comma and the value, is printed in front of the comma:
//
//   - C03: for a parseable (not gofmt-formatted) input the output no longer parses,
//     while gofmt's output of the same input does;
//   - C01: a gofmt-canonical input is not reproduced byte for byte.
package main

import (
	"bytes"
	"fmt"
	"go/format"
	"go/parser"
	"go/token"
	"os"
	"strings"

	"github.com/dave/dst/decorator"
)

// parseable, not gofmt-formatted
const srcC03 = `package p

func f(m map[string]int) {
	for k,
		/* int */ // the value
		v := range m {
		_, _ = k, v
	}
}
`

// gofmt-canonical (this is gofmt's output for srcC03)
const srcC01 = `package p

func f(m map[string]int) {
	for k,/* int */ // the value
	v := range m {
		_, _ = k, v
	}
}
`

func fail(format string, args ...interface{}) {
	fmt.Printf("FAIL: "+format+"\n", args...)
	os.Exit(1)
}

func viaHelpers(src string) string {
	f, err := decorator.Parse(src)
	if err != nil {
		fail("Parse: %v", err)
	}
	var buf bytes.Buffer
	if err := decorator.Fprint(&buf, f); err != nil {
		fail("Fprint: %v", err)
	}
	return buf.String()
}

func viaExplicit(src string) (out string, parsedGroups, restoredGroups int) {
	fset := token.NewFileSet()
	af, err := parser.ParseFile(fset, "p.go", src, parser.ParseComments)
	if err != nil {
		fail("parser.ParseFile: %v", err)
	}
	parsedGroups = len(af.Comments)
	df, err := decorator.NewDecorator(fset).DecorateFile(af)
	if err != nil {
		fail("DecorateFile: %v", err)
	}
	r := decorator.NewRestorer()
	raf, err := r.RestoreFile(df)
	if err != nil {
		fail("RestoreFile: %v", err)
	}
	var buf bytes.Buffer
	if err := format.Node(&buf, r.Fset, raf); err != nil {
		fail("format.Node: %v", err)
	}
	return buf.String(), parsedGroups, len(raf.Comments)
}

func main() {
	// sanity: both inputs parse, gofmt turns srcC03 into srcC01, srcC01 is a gofmt fixed point,
	// and gofmt's output parses
	for _, s := range []string{srcC03, srcC01} {
		g, err := format.Source([]byte(s))
		if err != nil || string(g) != srcC01 {
			fmt.Println("unexpected: gofmt of the input is not srcC01:", err)
			os.Exit(2)
		}
	}
	if _, err := parser.ParseFile(token.NewFileSet(), "", srcC01, parser.ParseComments); err != nil {
		fmt.Println("unexpected: gofmt output does not parse:", err)
		os.Exit(2)
	}

	var reasons []string

	// C03: the output for a parseable input must parse
	out1 := viaHelpers(srcC03)
	out2, pg, rg := viaExplicit(srcC03)
	for i, out := range []string{out1, out2} {
		if _, err := parser.ParseFile(token.NewFileSet(), "", out, parser.ParseComments); err != nil {
			fmt.Printf("--- input\n%s--- gofmt\n%s--- decorate+print (entry point %d)\n%s", srcC03, srcC01, i+1, out)
			reasons = append(reasons, fmt.Sprintf("C03: output does not parse (%v) while gofmt's output of the same input does", err))
			break
		}
	}

	// C01: a canonical input must be reproduced byte for byte
	out1 = viaHelpers(srcC01)
	out2, pg, rg = viaExplicit(srcC01)
	for i, out := range []string{out1, out2} {
		if out != srcC01 {
			fmt.Printf("--- input (gofmt-canonical)\n%s--- decorate+print (entry point %d)\n%s", srcC01, i+1, out)
			reasons = append(reasons, "C01: canonical file not reproduced byte for byte")
			break
		}
	}
	if len(reasons) > 0 {
		fail("%s (parser: %d comment group, restorer: %d comment groups)", strings.Join(reasons, "; "), pg, rg)
	}
	fmt.Println("PASS")
}
