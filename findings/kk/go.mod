module demo

go 1.18

require github.com/dave/dst v0.0.0

require (
	golang.org/x/mod v0.6.0-dev.0.20220419223038-86c51ed26bb4 // indirect
	golang.org/x/sys v0.0.0-20220722155257-8c9f86f7a55f // indirect
	golang.org/x/tools v0.1.12 // indirect
)

replace github.com/dave/dst => /repo
