// Finding 3: in a restored file the line break after a "//" comment is recorded AT the comment's
// End() instead of after it, so End() of every line comment is reported on the following line.
// Tools that compare comment end lines with node lines (ast.SortImports, ast.NewCommentMap) give
// other results on the restored tree than on a parse of the same text.
package main

import (
	"bytes"
	"fmt"
	"go/ast"
	"go/parser"
	"go/printer"
	"go/token"
	"os"
	"strings"

	"github.com/dave/dst/decorator"
)

const src = `package p

import (
	"os"  // the os package
	"fmt" // the fmt package
)

var _ = os.Exit
var _ = fmt.Println
`

func sortAndPrint(fset *token.FileSet, f *ast.File) string {
	ast.SortImports(fset, f)
	var buf bytes.Buffer
	if err := printer.Fprint(&buf, fset, f); err != nil {
		panic(err)
	}
	return buf.String()
}

func main() {
	fset := token.NewFileSet()
	pf, err := parser.ParseFile(fset, "p.go", src, parser.ParseComments)
	if err != nil {
		panic(err)
	}

	df, err := decorator.Parse(src)
	if err != nil {
		panic(err)
	}
	r := decorator.NewRestorer()
	af, err := r.RestoreFile(df)
	if err != nil {
		panic(err)
	}

	var problems []string

	// 1. position reporting: a comment ends on the line it starts on plus the line breaks in it
	for _, cg := range af.Comments {
		for _, c := range cg.List {
			start, end := r.Fset.Position(c.Slash).Line, r.Fset.Position(c.End()).Line
			if end-start != strings.Count(c.Text, "\n") {
				problems = append(problems, fmt.Sprintf("comment %q starts on line %d but its End() is reported on line %d", c.Text, start, end))
			}
		}
	}

	// 2. a position based tool: ast.SortImports keeps a trailing comment with its import spec
	want := sortAndPrint(fset, pf)
	got := sortAndPrint(r.Fset, af)
	if want != got {
		problems = append(problems, "ast.SortImports on the restored file moves a comment to another import:\n"+got)
	}

	if len(problems) > 0 {
		fmt.Printf("FAIL: %s\n", problems[0])
		for _, p := range problems[1:] {
			fmt.Fprintln(os.Stderr, p)
		}
		os.Exit(1)
	}
	fmt.Println("PASS")
}
