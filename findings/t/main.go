// Finding 3 (C03): in a CRLF file a multi-line raw string literal is shorter in the AST (the
// scanner strips the '\r' bytes) than in the source. The decorator measures the literal with
// len(Value), so line breaks at the end of the literal are taken for line breaks of the code:
// the printed file gets a "," token (and a line break) that the input does not have.
package main

import (
	"bytes"
	"fmt"
	"go/format"
	"go/parser"
	"go/scanner"
	"go/token"
	"os"
	"strings"

	"github.com/dave/dst/decorator"
)

func scan(src []byte) (toks []string) {
	fset := token.NewFileSet()
	f := fset.AddFile("", -1, len(src))
	var s scanner.Scanner
	s.Init(f, src, nil, 0)
	for {
		_, tok, lit := s.Scan()
		if tok == token.EOF {
			return
		}
		if tok == token.SEMICOLON {
			continue
		}
		if tok.IsLiteral() {
			toks = append(toks, lit)
		} else {
			toks = append(toks, tok.String())
		}
	}
}

func main() {
	// shape taken from grpc-gateway v1.16.0 protoc-gen-grpc-gateway/descriptor/grpc_api_configuration_test.go,
	// which is distributed with CRLF line endings
	src := strings.ReplaceAll("package p\n\nvar x = load([]byte(`\ntype: google.api.Service\nconfig_version: 3\n`), \"example\")\n\nvar y = 1\n", "\n", "\r\n")

	if _, err := parser.ParseFile(token.NewFileSet(), "", src, parser.ParseComments); err != nil {
		fmt.Println("SETUP ERROR:", err)
		os.Exit(2)
	}
	want, err := format.Source([]byte(src))
	if err != nil {
		fmt.Println("SETUP ERROR:", err)
		os.Exit(2)
	}

	f, err := decorator.Parse(src)
	if err != nil {
		fmt.Println("FAIL: Parse:", err)
		os.Exit(1)
	}
	var buf bytes.Buffer
	if err := decorator.Fprint(&buf, f); err != nil {
		fmt.Println("FAIL: Fprint:", err)
		os.Exit(1)
	}

	wantToks, gotToks := scan(want), scan(buf.Bytes())
	if strings.Join(wantToks, " ") != strings.Join(gotToks, " ") {
		fmt.Printf("FAIL: C03: token sequence of decorate+print differs from gofmt's for a CRLF file with a multi-line raw string (%d tokens vs %d)\n", len(gotToks), len(wantToks))
		fmt.Printf("gofmt tokens: %q\ndst tokens:   %q\n--- gofmt\n%s--- dst\n%s", wantToks, gotToks, want, buf.String())
		os.Exit(1)
	}
	fmt.Println("PASS")
}
