// Property C03: for any source the Go parser accepts, decorate + print must give the same
// token sequence as gofmt of the input and exactly the input's comments.
//
// The input below separates two import groups, and a free comment from a doc comment, by TWO
// blank lines instead of one (legal, just not gofmt-canonical). gofmt collapses the two blank
// lines to one and keeps the groups / the comments apart. dst forgets the blank lines
// altogether, so the two import groups merge (and are then sorted into a different order) and
// the free comment is glued to the doc comment of the next declaration.
package main

import (
	"bytes"
	"fmt"
	"go/format"
	"go/scanner"
	"go/token"
	"os"
	"strings"

	"github.com/dave/dst/decorator"
)

const src = `package p

import (
	"os"


	"fmt"
)

var _ = os.Args
//lint:file-ignore U1000 free comment, not documentation of f


// f prints.
func f() {
	fmt.Println()
}
`

// scan returns the token sequence (kind + literal text) and the comment texts of src.
func scan(src []byte) (toks []string, comments []string) {
	fset := token.NewFileSet()
	file := fset.AddFile("", fset.Base(), len(src))
	var s scanner.Scanner
	s.Init(file, src, nil, scanner.ScanComments)
	for {
		_, tok, lit := s.Scan()
		if tok == token.EOF {
			return
		}
		switch tok {
		case token.COMMENT:
			comments = append(comments, lit)
		case token.SEMICOLON:
			toks = append(toks, ";")
		default:
			toks = append(toks, tok.String()+" "+lit)
		}
	}
}

func main() {
	want, err := format.Source([]byte(src))
	if err != nil {
		fmt.Println("unexpected: gofmt rejects the input:", err)
		os.Exit(2)
	}

	f, err := decorator.Parse(src)
	if err != nil {
		fmt.Println("unexpected: decorator.Parse:", err)
		os.Exit(2)
	}
	var buf bytes.Buffer
	if err := decorator.Fprint(&buf, f); err != nil {
		fmt.Println("unexpected: decorator.Fprint:", err)
		os.Exit(2)
	}
	got := buf.Bytes()

	wantToks, _ := scan(want)
	gotToks, gotComments := scan(got)
	_, inComments := scan([]byte(src))

	var problems []string
	if strings.Join(wantToks, "\n") != strings.Join(gotToks, "\n") {
		for i := range wantToks {
			if i >= len(gotToks) || wantToks[i] != gotToks[i] {
				g := "<none>"
				if i < len(gotToks) {
					g = gotToks[i]
				}
				problems = append(problems, fmt.Sprintf("token %d is %q, gofmt has %q (imports reordered)", i, g, wantToks[i]))
				break
			}
		}
	}
	if strings.Join(inComments, "\n") != strings.Join(gotComments, "\n") {
		problems = append(problems, fmt.Sprintf("comments are %q, the input has %q", gotComments, inComments))
	}

	if len(problems) > 0 {
		fmt.Println("FAIL: two consecutive blank lines are decorated as a plain line break: " + strings.Join(problems, "; "))
		fmt.Println("--- gofmt of the input:\n" + string(want))
		fmt.Println("--- decorator.Parse + decorator.Fprint:\n" + string(got))
		os.Exit(1)
	}
	fmt.Println("PASS")
}
