// Finding 1: a multi-line /* */ comment that directly abuts the package clause
// ("*/package p") is rewritten by decorate+print.
//
// Properties: C01 (gofmt-canonical source is reproduced byte for byte) and
// C03 (comment texts survive decorate+print unchanged).
package main

import (
	"bytes"
	"fmt"
	"go/format"
	"go/parser"
	"go/scanner"
	"go/token"
	"os"

	"github.com/dave/dst/decorator"
)

const src = `/* Package p is an example.
It has a second line. */package p

var X = 1
`

func comments(src []byte) []string {
	fset := token.NewFileSet()
	f := fset.AddFile("", -1, len(src))
	var s scanner.Scanner
	s.Init(f, src, nil, scanner.ScanComments)
	var out []string
	for {
		_, t, lit := s.Scan()
		if t == token.EOF {
			return out
		}
		if t == token.COMMENT {
			out = append(out, lit)
		}
	}
}

func fail(format string, args ...interface{}) {
	fmt.Printf("FAIL: "+format+"\n", args...)
	os.Exit(1)
}

func main() {
	// the input is valid and in gofmt canonical form
	canonical, err := format.Source([]byte(src))
	if err != nil {
		fmt.Println("unexpected: input does not parse:", err)
		os.Exit(2)
	}
	if string(canonical) != src {
		fmt.Println("unexpected: input is not gofmt-canonical")
		os.Exit(2)
	}

	// entry point 1: the string helpers
	f, err := decorator.Parse(src)
	if err != nil {
		fail("Parse: %v", err)
	}
	var buf bytes.Buffer
	if err := decorator.Fprint(&buf, f); err != nil {
		fail("Fprint: %v", err)
	}

	// entry point 2: explicit decorator and restorer on a caller-supplied file set
	fset := token.NewFileSet()
	af, err := parser.ParseFile(fset, "p.go", src, parser.ParseComments)
	if err != nil {
		fail("parser.ParseFile: %v", err)
	}
	df, err := decorator.NewDecorator(fset).DecorateFile(af)
	if err != nil {
		fail("DecorateFile: %v", err)
	}
	r := decorator.NewRestorer()
	raf, err := r.RestoreFile(df)
	if err != nil {
		fail("RestoreFile: %v", err)
	}
	var buf2 bytes.Buffer
	if err := format.Node(&buf2, r.Fset, raf); err != nil {
		fail("format.Node: %v", err)
	}

	for i, got := range []string{buf.String(), buf2.String()} {
		if got != src {
			in, out := comments([]byte(src)), comments([]byte(got))
			fmt.Printf("--- input (gofmt-canonical)\n%s--- decorate+print (entry point %d)\n%s", src, i+1, got)
			if len(in) == 1 && len(out) == 1 && in[0] != out[0] {
				fail("canonical file not reproduced: comment text rewritten from %q to %q", in[0], out[0])
			}
			fail("canonical file not reproduced byte for byte")
		}
	}
	fmt.Println("PASS")
}
