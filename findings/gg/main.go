// Decorating the files of one package with one Decorator gives different trees
// depending on the order of the DecorateFile calls, as soon as the files are
// linked by the (deprecated, but supported by dst) ast.Object graph.
package main

import (
	"bytes"
	"fmt"
	"go/ast"
	"go/parser"
	"go/token"
	"os"

	"github.com/dave/dst"
	"github.com/dave/dst/decorator"
)

var srcs = map[string]string{
	"a.go": `package p

func A() int {
	return B() + 1
}
`,
	"b.go": `package p

// B returns one.
func B() int {
	// the answer
	return 1 // one
}

// C is unrelated.
func C() {}
`,
}

// run parses both files, links them with ast.NewPackage (this resolves the
// identifier B in a.go to the object declared in b.go: Obj.Decl is the FuncDecl
// of b.go), then decorates the files one by one, in the given order, with ONE
// decorator - "Create a new Decorator for each package you need to decorate" -
// and prints every file with a fresh restorer.
func run(order []string) (map[string]string, map[string]*dst.File, *decorator.Decorator) {
	fset := token.NewFileSet()
	files := map[string]*ast.File{}
	for _, name := range []string{"a.go", "b.go"} {
		f, err := parser.ParseFile(fset, name, srcs[name], parser.ParseComments)
		if err != nil {
			panic(err)
		}
		files[name] = f
	}
	universe := ast.NewScope(nil)
	universe.Insert(ast.NewObj(ast.Typ, "int"))
	if _, err := ast.NewPackage(fset, files, nil, universe); err != nil {
		panic(err)
	}
	if files["a.go"].Decls[0].(*ast.FuncDecl).Body.List[0].(*ast.ReturnStmt).Results[0].(*ast.BinaryExpr).X.(*ast.CallExpr).Fun.(*ast.Ident).Obj.Decl != files["b.go"].Decls[0] {
		panic("test setup: B in a.go is not linked to the declaration in b.go")
	}

	d := decorator.NewDecorator(fset)
	out := map[string]string{}
	trees := map[string]*dst.File{}
	for _, name := range order {
		df, err := d.DecorateFile(files[name])
		if err != nil {
			panic(err)
		}
		trees[name] = df
		var buf bytes.Buffer
		if err := decorator.NewRestorer().Fprint(&buf, df); err != nil {
			panic(err)
		}
		out[name] = buf.String()
	}
	return out, trees, d
}

func main() {
	ba, _, _ := run([]string{"b.go", "a.go"})
	ab, trees, _ := run([]string{"a.go", "b.go"})

	ok := true
	for _, name := range []string{"a.go", "b.go"} {
		if ba[name] != srcs[name] {
			ok = false
			fmt.Printf("order b,a: %s is not reproduced:\n%s\n", name, ba[name])
		}
		if ab[name] != srcs[name] {
			ok = false
			fmt.Printf("order a,b: %s is not reproduced:\n%s\n", name, ab[name])
		}
		if ab[name] != ba[name] {
			ok = false
			fmt.Printf("%s: the result depends on the order of the DecorateFile calls\n", name)
		}
	}
	// the tree itself: the declaration of B carries no decorations at all
	fn := trees["b.go"].Decls[0].(*dst.FuncDecl)
	if len(fn.Decs.Start) == 0 {
		fmt.Printf("order a,b: FuncDecl B in b.go has Decs.Start=%q Before=%v (want the doc comment, EmptyLine)\n", fn.Decs.Start, fn.Decs.Before)
	}
	if !ok {
		fmt.Println("FAIL: decorating a.go before b.go with one Decorator strips every comment and line break from func B in b.go; decorating b.go first does not")
		os.Exit(1)
	}
	fmt.Println("PASS")
}
