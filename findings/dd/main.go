// Finding 1: a restored *ast.File has FileStart == FileEnd == token.NoPos, so the restored tree
// cannot be type-checked: go/types (Go 1.22+) looks up the file of a position through
// File.FileStart/FileEnd and panics with "file not found for pos".
package main

import (
	"fmt"
	"go/ast"
	"go/parser"
	"go/token"
	"go/types"
	"os"

	"github.com/dave/dst/decorator"
)

const src = `package p

func Sum(xs []int) int {
	t := 0
	for _, x := range xs {
		t += x << 1
	}
	return t
}

var Total = Sum([]int{1, 2, 3})
`

func check(fset *token.FileSet, f *ast.File) (msg string) {
	defer func() {
		if r := recover(); r != nil {
			msg = fmt.Sprintf("go/types panicked: %v", r)
		}
	}()
	conf := types.Config{}
	if _, err := conf.Check("p", fset, []*ast.File{f}, nil); err != nil {
		return "type error: " + err.Error()
	}
	return ""
}

func main() {
	// control: the same text, parsed by go/parser, type-checks
	fset := token.NewFileSet()
	pf, err := parser.ParseFile(fset, "p.go", src, parser.ParseComments)
	if err != nil {
		panic(err)
	}
	if msg := check(fset, pf); msg != "" {
		fmt.Println("control failed:", msg)
		os.Exit(2)
	}

	df, err := decorator.Parse(src)
	if err != nil {
		panic(err)
	}
	r := decorator.NewRestorer()
	af, err := r.RestoreFile(df)
	if err != nil {
		panic(err)
	}

	tf := r.Fset.File(af.Package)
	var problems []string
	if !af.FileStart.IsValid() || !af.FileEnd.IsValid() {
		problems = append(problems, fmt.Sprintf("restored File.FileStart=%d FileEnd=%d (a parse gives %d and %d; the registered file is [%d,%d])",
			af.FileStart, af.FileEnd, pf.FileStart, pf.FileEnd, tf.Base(), tf.Base()+tf.Size()))
	}
	if msg := check(r.Fset, af); msg != "" {
		problems = append(problems, msg)
	}
	if len(problems) > 0 {
		fmt.Printf("FAIL: %v\n", problems)
		os.Exit(1)
	}
	fmt.Println("PASS")
}
