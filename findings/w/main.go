// A cgo file decorated with the types-based resolver cannot be restored with an accurate
// package-name resolver: C.int, C.puts ... become identifiers with Path "C", and the restorer
// then asks the RestorerResolver for the name of the pseudo-package "C", which no real
// resolver (simple, gopackages, gobuild) knows. The syntax-only resolver leaves C.x alone, so
// the two decorator resolvers also disagree on this file.
package main

import (
	"bytes"
	"fmt"
	"go/ast"
	"go/importer"
	"go/parser"
	"go/token"
	"go/types"
	"os"

	"github.com/dave/dst"
	"github.com/dave/dst/decorator"
	"github.com/dave/dst/decorator/resolver/goast"
	"github.com/dave/dst/decorator/resolver/gotypes"
	"github.com/dave/dst/decorator/resolver/simple"
)

const src = `package main

/*
#include <stdio.h>
*/
import "C"

import (
	"fmt"
	"unsafe"
)

func main() {
	var x C.int
	fmt.Println(x, unsafe.Sizeof(x))
	C.puts(nil)
}
`

// accurate names of every real package the file imports
var names = simple.New(map[string]string{"fmt": "fmt", "unsafe": "unsafe"})

func paths(f *dst.File) []string {
	var out []string
	dst.Inspect(f, func(n dst.Node) bool {
		if id, ok := n.(*dst.Ident); ok && id.Path != "" {
			out = append(out, id.Path+"."+id.Name)
		}
		return true
	})
	return out
}

func main() {
	// types-based resolver; cgo files are type-checked without running cgo with FakeImportC
	fset := token.NewFileSet()
	f, err := parser.ParseFile(fset, "a.go", src, parser.ParseComments)
	if err != nil {
		panic(err)
	}
	info := &types.Info{Uses: map[*ast.Ident]types.Object{}, Defs: map[*ast.Ident]types.Object{}}
	conf := types.Config{Importer: importer.Default(), FakeImportC: true}
	if _, err := conf.Check("main", fset, []*ast.File{f}, info); err != nil {
		fmt.Println("setup: type check:", err)
		os.Exit(2)
	}
	df, err := decorator.NewDecoratorWithImports(fset, "main", gotypes.New(info.Uses)).DecorateFile(f)
	if err != nil {
		fmt.Println("setup: decorate:", err)
		os.Exit(2)
	}
	typesPaths := paths(df)

	// syntax-only resolver on the same text
	fset2 := token.NewFileSet()
	f2, _ := parser.ParseFile(fset2, "a.go", src, parser.ParseComments)
	df2, err := decorator.NewDecoratorWithImports(fset2, "main", goast.WithResolver(names)).DecorateFile(f2)
	if err != nil {
		fmt.Println("setup: decorate (goast):", err)
		os.Exit(2)
	}
	astPaths := paths(df2)

	var buf bytes.Buffer
	rerr := decorator.NewRestorerWithImports("main", names).Fprint(&buf, df)

	var buf2 bytes.Buffer
	rerr2 := decorator.NewRestorerWithImports("main", names).Fprint(&buf2, df2)
	if rerr2 != nil || buf2.String() != src {
		fmt.Println("setup: goast round trip should be exact:", rerr2)
		os.Exit(2)
	}

	if rerr != nil {
		fmt.Printf("FAIL: unedited cgo file decorated with gotypes cannot be restored with an accurate resolver: %v; gotypes paths %v, goast paths %v\n", rerr, typesPaths, astPaths)
		os.Exit(1)
	}
	if buf.String() != src {
		fmt.Println("FAIL: output differs from source")
		os.Exit(1)
	}
	if fmt.Sprint(typesPaths) != fmt.Sprint(astPaths) {
		fmt.Printf("FAIL: resolvers disagree: gotypes %v, goast %v\n", typesPaths, astPaths)
		os.Exit(1)
	}
	fmt.Println("PASS")
}
