package main

import (
	"bytes"
	"fmt"
	"go/format"
	"go/scanner"
	"go/token"
	"os"

	"github.com/dave/dst/decorator"
)

func toks(src []byte) []string {
	var s scanner.Scanner
	fset := token.NewFileSet()
	f := fset.AddFile("", fset.Base(), len(src))
	s.Init(f, src, nil, scanner.ScanComments)
	var out []string
	for {
		_, tok, lit := s.Scan()
		if tok == token.EOF {
			break
		}
		if tok == token.SEMICOLON {
			continue
		}
		out = append(out, tok.String()+" "+lit)
	}
	return out
}

func main() {
	// line 3 holds a block comment spanning lines 3-4; the //line directive then renumbers the
	// following lines 3, 4, …: the composite literal's closing brace is on a line whose *reported*
	// number is 4, the same as the comment's second line.
	src := "package p\n\n/* a\nb */\n\n//line x.go:2\nvar x = []int{\n\t1,\n\t2,\n}\n"
	want, err := format.Source([]byte(src))
	if err != nil {
		panic(err)
	}
	f, err := decorator.Parse(src)
	if err != nil {
		panic(err)
	}
	var buf bytes.Buffer
	if err := decorator.Fprint(&buf, f); err != nil {
		panic(err)
	}
	a, b := toks(want), toks(buf.Bytes())
	if fmt.Sprint(a) != fmt.Sprint(b) || !bytes.Equal(want, buf.Bytes()) {
		fmt.Printf("FAIL: gofmt %q\n      dst   %q\n", want, buf.Bytes())
		os.Exit(1)
	}
	fmt.Println("PASS")
}
