// Finding 2: the implicit empty statement after a label at the end of a block ("next: }") is
// restored without a position, so End() of the labelled statement - and of a case clause that
// ends with one - is token.NoPos, i.e. before its own Pos().
package main

import (
	"bytes"
	"fmt"
	"go/ast"
	"go/format"
	"go/parser"
	"go/token"
	"os"

	"github.com/dave/dst/decorator"
)

const src = `package p

func f(xs []int) {
	for _, x := range xs {
		if x == 0 {
			goto next
		}
		println(x)
	next:
	}
	switch len(xs) {
	default:
	case 1:
		goto done
	done:
	}
}
`

type rec struct {
	typ      string
	pos, end token.Pos
}

func nodes(f *ast.File) []rec {
	var out []rec
	ast.Inspect(f, func(n ast.Node) bool {
		if n != nil {
			out = append(out, rec{fmt.Sprintf("%T", n), n.Pos(), n.End()})
		}
		return true
	})
	return out
}

func main() {
	df, err := decorator.Parse(src)
	if err != nil {
		panic(err)
	}
	r := decorator.NewRestorer()
	af, err := r.RestoreFile(df)
	if err != nil {
		panic(err)
	}

	// fresh parse of the printed text, for comparison
	var buf bytes.Buffer
	if err := format.Node(&buf, r.Fset, af); err != nil {
		panic(err)
	}
	fset2 := token.NewFileSet()
	pf, err := parser.ParseFile(fset2, "p.go", buf.Bytes(), parser.ParseComments)
	if err != nil {
		panic(err)
	}

	a, b := nodes(af), nodes(pf)
	if len(a) != len(b) {
		fmt.Println("FAIL: different trees")
		os.Exit(1)
	}
	tf := r.Fset.File(af.Package)
	var problems []string
	for i := range a {
		if a[i].typ != b[i].typ {
			fmt.Println("FAIL: different trees")
			os.Exit(1)
		}
		switch {
		case b[i].end.IsValid() && !a[i].end.IsValid():
			problems = append(problems, fmt.Sprintf("%s at %s: End() is NoPos (Pos()=%d); the parsed node ends at %s",
				a[i].typ, r.Fset.Position(a[i].pos), a[i].pos, fset2.Position(b[i].end)))
		case b[i].pos.IsValid() && !a[i].pos.IsValid():
			problems = append(problems, fmt.Sprintf("%s: Pos() is NoPos; the parsed node starts at %s", a[i].typ, fset2.Position(b[i].pos)))
		case a[i].end < a[i].pos:
			problems = append(problems, fmt.Sprintf("%s: End() %d < Pos() %d", a[i].typ, a[i].end, a[i].pos))
		case int(a[i].end) > tf.Base()+tf.Size():
			problems = append(problems, fmt.Sprintf("%s: End() outside the file", a[i].typ))
		}
	}
	if len(problems) > 0 {
		fmt.Printf("FAIL: %d nodes with an invalid extent, e.g. %s\n", len(problems), problems[0])
		for _, p := range problems {
			fmt.Fprintln(os.Stderr, "  ", p)
		}
		os.Exit(1)
	}
	fmt.Println("PASS")
}
