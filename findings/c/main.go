package main

// run with: go run -race .   (exit status 66 and "DATA RACE" on the defective tree)

import (
	"fmt"
	"sync"

	"github.com/dave/dst/decorator"
	"github.com/dave/dst/decorator/resolver/goast"
)

func main() {
	src := "package a\n\nimport \"fmt\"\n\nfunc f() { fmt.Println() }\n"
	for round := 0; round < 200; round++ {
		shared := goast.New() // one syntax-based resolver shared by all goroutines
		var wg sync.WaitGroup
		for g := 0; g < 8; g++ {
			wg.Add(1)
			go func() {
				defer wg.Done()
				d := decorator.NewDecoratorWithImports(nil, "a", shared)
				if _, err := d.Parse(src); err != nil {
					panic(err)
				}
			}()
		}
		wg.Wait()
	}
	fmt.Println("PASS")
}
