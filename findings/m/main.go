// Property C09: the types-based resolver must give a package path only to identifiers that
// denote package-level objects; "local ... identifiers get none".
//
// With the documented option Decorator.ResolveLocalPath = true (meant to keep references to the
// package-level objects of the decorated package qualified, so that code can be moved to another
// package), gotypes.DecoratorResolver also gives the package path to every FUNCTION-LOCAL
// identifier: parameters, receivers, named results, local variables, local constants, local
// types and type parameters. Restoring the tree under another package path then prints "a.x"
// for a local variable x.
package main

import (
	"bytes"
	"fmt"
	"go/ast"
	"go/importer"
	"go/parser"
	"go/token"
	"go/types"
	"os"
	"strings"

	"github.com/dave/dst"
	"github.com/dave/dst/decorator"
	"github.com/dave/dst/decorator/resolver/gotypes"
	"github.com/dave/dst/decorator/resolver/guess"
)

const src = `package a

import "fmt"

var Global = 1

type T struct{ F int }

func (t T) M(p int) (r int) {
	x := p + Global
	const c = 2
	type lt int
	var y lt
	_ = y
	fmt.Println(x, c, t.F)
	func() { _ = x }()
	r = x
	return r
}

func G[E any](e E) E {
	var z E
	_ = z
	return e
}
`

func main() {
	fset := token.NewFileSet()
	f, err := parser.ParseFile(fset, "a.go", src, parser.ParseComments)
	if err != nil {
		panic(err)
	}
	info := &types.Info{Uses: map[*ast.Ident]types.Object{}, Defs: map[*ast.Ident]types.Object{}}
	conf := types.Config{Importer: importer.Default()}
	pkg, err := conf.Check("example.com/a", fset, []*ast.File{f}, info)
	if err != nil {
		panic(err)
	}

	d := decorator.NewDecoratorWithImports(fset, "example.com/a", gotypes.New(info.Uses))
	d.ResolveLocalPath = true // documented option: "all idents will have the package path added"
	df, err := d.DecorateFile(f)
	if err != nil {
		panic(err)
	}

	// Independent classification with go/types: an identifier may carry a path only if it is a
	// use of a package-level object (object declared directly in a package scope).
	var wrong []string
	ast.Inspect(f, func(n ast.Node) bool {
		id, ok := n.(*ast.Ident)
		if !ok {
			return true
		}
		di, ok := d.Dst.Nodes[id].(*dst.Ident)
		if !ok || di.Path == "" {
			return true
		}
		obj := info.Uses[id]
		if _, isPkgName := obj.(*types.PkgName); isPkgName {
			return true // X of a qualified identifier: merged into the dst.Ident of Sel
		}
		packageLevel := obj != nil && obj.Pkg() != nil && obj.Parent() == obj.Pkg().Scope()
		if !packageLevel {
			wrong = append(wrong, fmt.Sprintf("%s@%d(%T)", id.Name, fset.Position(id.Pos()).Line, obj))
		}
		return true
	})

	// What the user sees: move the file to package b and restore.
	df.Name.Name = "b"
	var buf bytes.Buffer
	if err := decorator.NewRestorerWithImports("example.com/b", guess.New()).Fprint(&buf, df); err != nil {
		panic(err)
	}
	_ = pkg

	if len(wrong) > 0 {
		line := ""
		for _, l := range strings.Split(buf.String(), "\n") {
			if strings.Contains(l, "a.p") {
				line = strings.TrimSpace(l)
				break
			}
		}
		fmt.Printf("FAIL: %d function-local identifiers got Path %q: %s; restored in package b as: %q\n",
			len(wrong), "example.com/a", strings.Join(wrong, " "), line)
		os.Exit(1)
	}
	fmt.Println("PASS")
}
