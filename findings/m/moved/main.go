// Finding 3: with Decorator.ResolveLocalPath (the option that exists so that code can leave its
// package) and the gotypes resolver, function-local objects (parameters, results, local
// variables, local types, type parameters, receivers) are given the package path as well. When
// the declaration is placed in a file of another package they are printed as a.in, a.x, a.T...
package main

import (
	"bytes"
	"fmt"
	"go/ast"
	"go/importer"
	"go/parser"
	"go/token"
	"go/types"
	"os"
	"strings"

	"github.com/dave/dst"
	"github.com/dave/dst/decorator"
	"github.com/dave/dst/decorator/resolver/gotypes"
	"github.com/dave/dst/decorator/resolver/guess"
)

const pathA = "example.com/a"
const pathB = "example.com/b"

const srcA = `package a

import "strings"

type Opts struct{ Sep string }

func Join(o Opts, parts ...string) string { return strings.Join(parts, o.Sep) }

// Shout is the function that is moved to package b. It only refers to exported objects of a.
func Shout(in string, rest ...string) (out string) {
	o := Opts{Sep: " "}
	joined := Join(o, append([]string{in}, rest...)...)
	out = strings.ToUpper(joined)
	return out
}
`

const srcB = `package b

func Other() {}
`

// imp serves the packages that were checked by this program and falls back to the default importer
type imp struct {
	known map[string]*types.Package
	def   types.Importer
}

func (i imp) Import(path string) (*types.Package, error) {
	if p, ok := i.known[path]; ok {
		return p, nil
	}
	return i.def.Import(path)
}

func main() {
	fset := token.NewFileSet()
	im := imp{known: map[string]*types.Package{}, def: importer.ForCompiler(fset, "source", nil)}

	load := func(path, name, src string) (*dst.File, *types.Package) {
		af, err := parser.ParseFile(fset, name, src, parser.ParseComments)
		if err != nil {
			panic(err)
		}
		info := &types.Info{Uses: map[*ast.Ident]types.Object{}}
		pkg, err := (&types.Config{Importer: im}).Check(path, fset, []*ast.File{af}, info)
		if err != nil {
			panic(err)
		}
		im.known[path] = pkg
		d := decorator.NewDecoratorWithImports(fset, path, gotypes.New(info.Uses))
		d.ResolveLocalPath = true // identifiers keep pointing at package a when they leave it
		f, err := d.DecorateFile(af)
		if err != nil {
			panic(err)
		}
		return f, pkg
	}

	fa, _ := load(pathA, "a.go", srcA)
	fb, _ := load(pathB, "b.go", srcB)

	// move Shout from a.go to b.go
	var moved dst.Decl
	for i, d := range fa.Decls {
		if fd, ok := d.(*dst.FuncDecl); ok && fd.Name.Name == "Shout" {
			moved = d
			fa.Decls = append(fa.Decls[:i:i], fa.Decls[i+1:]...)
			break
		}
	}
	fb.Decls = append(fb.Decls, moved)

	r := decorator.NewRestorerWithImports(pathB, guess.New())
	var buf bytes.Buffer
	if err := r.Fprint(&buf, fb); err != nil {
		fmt.Println("FAIL: restore error:", err)
		os.Exit(1)
	}
	out := buf.String()

	// judge: the go/types check of the printed target file against the same dependency packages,
	// and the package-level object every qualified identifier denotes.
	ofset := token.NewFileSet()
	of, err := parser.ParseFile(ofset, "b.go", out, 0)
	if err != nil {
		fmt.Printf("---- output\n%s\nFAIL: output does not parse: %v\n", out, err)
		os.Exit(1)
	}
	var errs []string
	info := &types.Info{Uses: map[*ast.Ident]types.Object{}}
	conf := types.Config{Importer: im, Error: func(err error) { errs = append(errs, err.Error()) }}
	conf.Check(pathB, ofset, []*ast.File{of}, info)
	if len(errs) > 0 {
		fmt.Printf("---- output\n%s\n", out)
		fmt.Printf("FAIL: moved declaration no longer type-checks (%d errors), first: %s\n", len(errs), errs[0])
		os.Exit(1)
	}
	// the references to a.Opts, a.Join, strings.Join... must still denote those objects
	want := map[string]bool{pathA + ".Opts": false, pathA + ".Join": false, "strings.ToUpper": false}
	for _, obj := range info.Uses {
		if obj.Pkg() != nil {
			k := obj.Pkg().Path() + "." + obj.Name()
			if _, ok := want[k]; ok {
				want[k] = true
			}
		}
	}
	var missing []string
	for k, ok := range want {
		if !ok {
			missing = append(missing, k)
		}
	}
	if len(missing) > 0 {
		fmt.Printf("---- output\n%s\nFAIL: moved code no longer refers to %s\n", out, strings.Join(missing, ", "))
		os.Exit(1)
	}
	fmt.Println("PASS")
}
