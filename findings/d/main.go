package main

import (
	"fmt"
	"os"

	"github.com/dave/dst"
)

func main() {
	// a field without a type: documented as legal ("Type ... or nil"), produced by the parser for
	// incomplete parameter lists, and guarded by go/ast.Walk
	f := &dst.Field{Names: []*dst.Ident{dst.NewIdent("a")}}
	nils, nodes := 0, 0
	defer func() {
		if r := recover(); r != nil {
			fmt.Println("FAIL: panic:", r)
			os.Exit(1)
		}
	}()
	dst.Inspect(f, func(n dst.Node) bool {
		if n == nil {
			nils++
		} else {
			nodes++
		}
		return true
	})
	fmt.Printf("nodes=%d nil-calls=%d\n", nodes, nils)
	if nodes != 2 || nils != 2 {
		fmt.Println("FAIL: expected 2 nodes (Field, Ident) and 2 closing nil calls")
		os.Exit(1)
	}
	fmt.Println("PASS")
}
