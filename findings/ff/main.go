// Property C02: comments and spacing travel with their node when sibling lists are edited.
//
// The last element of a list is followed by a comment on its own line, written at the
// indentation of the list (the usual "// TODO: more ..." before the closing brace). An element
// is duplicated with Clone and appended to the list. The printed result is compared with gofmt of
// the source in which the same chunk was added by hand at the end of the list.
package main

import (
	"bytes"
	"fmt"
	"go/format"
	"os"
	"strings"

	"github.com/dave/dst"
	"github.com/dave/dst/decorator"
)

func gofmt(s string) string {
	b, err := format.Source([]byte(s))
	if err != nil {
		panic(err)
	}
	return string(b)
}

func print(f *dst.File) string {
	var buf bytes.Buffer
	if err := decorator.Fprint(&buf, f); err != nil {
		panic(err)
	}
	return buf.String()
}

type test struct {
	name   string
	src    string // %s is where the appended chunk goes
	chunk  string
	append func(f *dst.File)
}

var tests = []test{
	{
		name: "statements, last one wrapped",
		src: `package p

func f() {
	y()
	s = f().
		g()
	// TODO: more
%s}
`,
		chunk: "\ty()\n",
		append: func(f *dst.File) {
			b := f.Decls[0].(*dst.FuncDecl).Body
			b.List = append(b.List, dst.Clone(b.List[0]).(dst.Stmt))
		},
	},
	{
		name: "specs, last one wrapped",
		src: `package p

var (
	a = 1
	c = f().
		g()
	// TODO: more
%s)
`,
		chunk: "\ta = 1\n",
		append: func(f *dst.File) {
			g := f.Decls[0].(*dst.GenDecl)
			g.Specs = append(g.Specs, dst.Clone(g.Specs[0]).(dst.Spec))
		},
	},
}

func main() {
	var failed []string
	for _, t := range tests {
		src := fmt.Sprintf(t.src, "")
		if gofmt(src) != src {
			panic("source is not gofmt-formatted: " + t.name)
		}
		f, err := decorator.Parse(src)
		if err != nil {
			panic(err)
		}
		if got := print(f); got != src {
			panic("round trip without edit differs: " + t.name)
		}
		t.append(f)
		got := print(f)
		want := gofmt(fmt.Sprintf(t.src, t.chunk))
		if got != want {
			failed = append(failed, t.name)
			fmt.Printf("--- %s: want\n%s--- got\n%s", t.name, want, got)
		}
	}
	if len(failed) > 0 {
		fmt.Printf("FAIL: after appending an element, the own-line comment that followed the last element is printed one level deeper, as a hanging comment of the previous element (%s)\n", strings.Join(failed, "; "))
		os.Exit(1)
	}
	fmt.Println("PASS")
}
